#!/usr/bin/env python3
"""Copies confirmed seeded changes into /verif/seeded/<id>-<x>/ with a meta.json that records what breaks, what it
needs, how it was confirmed and which check detected it (from build/seed_matrix*.log and /tmp/confirm*.log)."""
import os, sys, json, re, shutil
V = os.path.dirname(os.path.dirname(os.path.abspath(__file__)))
roots = sys.argv[1:] or ["/tmp/seed"]
confirm = {}
for f in ("/tmp/confirm.log", "/tmp/confirm2.log", "/tmp/confirm3.log", "/tmp/confirm4.log", "/tmp/confirm5.log", "/tmp/confirm6.log", "/tmp/confirm_ported.log"):
    if os.path.exists(f):
        for l in open(f):
            p = l.split()[0]
            confirm[p] = l.strip()[len(p) + 1:]
detect = {}
for f in ("build/seed_matrix.log", "build/seed_matrix2.log", "/tmp/r3_first.log", "/tmp/r4_first.log", "/tmp/r5_first.log", "/tmp/r6_first.log"):
    f = os.path.join(V, f)
    if os.path.exists(f):
        for l in open(f):
            m = re.match(r"(\S+) (C\d+) exit=(\d+) (\d+) violation-lines; (.*)", l)
            if m:
                detect.setdefault(m.group(1), []).append({"check": m.group(2), "exit": int(m.group(3)), "violation_lines": int(m.group(4)), "summary": m.group(5)})
n = 0
for root in roots:
    rnd = "r6" if root.endswith("6") else "r5" if root.endswith("5") else "r4" if root.endswith("4") else "r3" if root.endswith("3") else "r2" if root.endswith("2") else "r1"
    for pid in sorted(os.listdir(root)):
        for x in ("a", "b"):
            d = os.path.join(root, pid, x)
            if not os.path.isdir(d):
                continue
            if not os.path.exists(os.path.join(d, "patch.diff")) or d not in confirm or "demo_with_change=1 demo_without=0" not in confirm[d]:
                continue
            out = os.path.join(V, "seeded", "%s-%s-%s" % (pid, rnd, x))
            os.makedirs(out, exist_ok=True)
            shutil.copy(os.path.join(d, "patch.diff"), out)
            shutil.copy(os.path.join(d, "demo.py"), out)
            meta = json.load(open(os.path.join(d, "meta.json")))
            meta["property"] = pid
            meta["confirmed_in_scratch_worktree"] = confirm[d]
            meta["ported"] = os.path.exists(os.path.join(d, "patch_orig.diff"))
            if meta["ported"]:
                meta["ported_note"] = "the sub-agent's patch no longer applied after fix commits in /repo; the same change was re-made on the current HEAD (original kept as patch_orig.diff)"
                shutil.copy(os.path.join(d, "patch_orig.diff"), out)
            meta["what_was_run"] = "tools/confirm_seed.sh (apply in scratch worktree, full test suite, demo with and without the change); tools/try_seed.sh (git -C /repo apply, ./check <id>, git checkout)"
            meta["checks_run"] = detect.get(d, [])
            meta["detected"] = any(c["exit"] == 1 for c in meta["checks_run"])
            json.dump(meta, open(os.path.join(out, "meta.json"), "w"), indent=1)
            n += 1
print("collected", n)
