#!/usr/bin/env python3
"""Regenerates the seed tables of DESIGN.md section 11 (between the SEEDS-BEGIN / SEEDS-END markers)
from seeded/*/meta.json."""
import json, glob, os, re
V = os.path.dirname(os.path.dirname(os.path.abspath(__file__)))
rows = {}
for d in sorted(glob.glob(os.path.join(V, "seeded", "*"))):
    m = json.load(open(os.path.join(d, "meta.json")))
    name = os.path.basename(d)
    rnd = name.split("-")[1]
    first = m.get("checks_run") or []
    final = m.get("checks_run_final") or first
    def res(cs):
        if not cs:
            return "not run"
        c = cs[0]
        if c["exit"] == 1:
            mm = re.search(r"(\d+) violations", c["summary"])
            return "detected (%s cases)" % (mm.group(1) if mm else "?")
        if c["exit"] == 0:
            return "MISSED"
        return "check did not finish (exit %d)" % c["exit"]
    rows.setdefault(rnd, []).append("| %s | %s | %s | %s | %s |" % (
        name, (m.get("title") or "").replace("|", "/"), ", ".join(f.replace("odml/", "") for f in m.get("files", [])),
        res(first) + (" (ported)" if m.get("ported") else ""), res(final)))
out = []
for rnd in sorted(rows):
    n = len(rows[rnd])
    first_ok = sum(1 for r in rows[rnd] if "| detected" in r.split("|")[4] or r.split("|")[4].strip().startswith("detected"))
    final_ok = sum(1 for r in rows[rnd] if r.split("|")[5].strip().startswith("detected"))
    out.append("#### Round %s: %d changes; detected when first run: %d, detected by the final checks: %d\n" % (rnd[1:], n, first_ok, final_ok))
    out.append("| seed | change | file | quick check of its property, when first run | final |")
    out.append("|---|---|---|---|---|")
    out += rows[rnd]
    out.append("")
text = "\n".join(out)
p = os.path.join(V, "DESIGN.md")
s = open(p).read()
if "<!-- SEEDS-BEGIN -->" in s:
    s = re.sub(r"<!-- SEEDS-BEGIN -->.*<!-- SEEDS-END -->", "<!-- SEEDS-BEGIN -->\n" + text.replace("\\", "\\\\") + "\n<!-- SEEDS-END -->", s, flags=re.S)
    open(p, "w").write(s)
    print("DESIGN.md updated")
else:
    print(text)
