#!/bin/sh
# usage: confirm_seed.sh <seed dir> ; confirms in a scratch worktree of /repo HEAD that the seeded change
# applies, keeps the test-suite result (238 passed, the 2 network tests failing) and that the demo fails with it
# and passes without it.  Prints one line.
d=$1
wt=/tmp/wt/confirm_$$
git -C /repo worktree add -q --detach $wt HEAD || exit 2
cd $wt
res="apply=fail"
if git apply "$d/patch.diff" 2>/dev/null; then
  t=$(PYTHONPATH=$wt /venv/bin/python -m pytest -q -p no:cacheprovider test 2>&1 | tail -1)
  PYTHONPATH=$wt /venv/bin/python "$d/demo.py" >/dev/null 2>&1; with=$?
  git checkout -q -- .
  PYTHONPATH=$wt /venv/bin/python "$d/demo.py" >/dev/null 2>&1; without=$?
  res="apply=ok tests=[$t] demo_with_change=$with demo_without=$without"
fi
cd /; git -C /repo worktree remove --force $wt
echo "$d $res"
