#!/usr/bin/env python3
"""usage: record_matrix.py <log of seed_matrix_par.sh> <round tag, e.g. r5> [first|final]
writes the result of each line into seeded/<Cxx>-<round>-<a|b>/meta.json (checks_run / checks_run_final)."""
import sys, re, json, os
V = os.path.dirname(os.path.dirname(os.path.abspath(__file__)))
log, rnd = sys.argv[1], sys.argv[2]
which = sys.argv[3] if len(sys.argv) > 3 else "final"
n = 0
for l in open(log):
    m = re.match(r"(\S+) (C\d+) exit=(\d+) (\d+) violation-lines; (.*)", l)
    if not m:
        continue
    if os.path.exists(os.path.join(m.group(1), "meta.json")) and "/seeded/" in m.group(1):
        d = m.group(1).rstrip("/")               # a kept seed, named by its own directory
    else:
        mm = re.search(r"(C\d\d)[/-](?:r\d-)?([ab])/?$", m.group(1).rstrip("/"))
        if not mm:
            continue
        d = os.path.join(V, "seeded", "%s-%s-%s" % (mm.group(1), rnd, mm.group(2)))
        if not os.path.isdir(d):
            d = None
    if d is None or not os.path.exists(os.path.join(d, "meta.json")):
        continue
    meta = json.load(open(os.path.join(d, "meta.json")))
    rec = [{"check": m.group(2), "exit": int(m.group(3)), "violation_lines": int(m.group(4)), "summary": m.group(5).strip()}]
    if which == "first":
        meta["checks_run"], meta["detected"] = rec, int(m.group(3)) == 1
    else:
        meta["checks_run_final"], meta["detected_final"] = rec, int(m.group(3)) == 1
    meta["what_was_run"] = ("tools/confirm_seed.sh (apply in scratch worktree, full test suite, demo with and without the change); "
                            "tools/seed_matrix_par.sh (scratch worktree of /repo with the change applied, ./check <id> from a scratch copy of /verif with ODML_REPO)")
    json.dump(meta, open(os.path.join(d, "meta.json"), "w"), indent=1)
    n += 1
print("recorded", n)
