#!/bin/sh
# run every registered quick (or $TIER) check on the current tree; summary per property
cd /verif
for p in $(python3 -c "import json;print(' '.join(c['property_id'] for c in json.load(open('MANIFEST.json'))['checks']))"); do
  s=$(date +%s)
  ./check $p --tier ${TIER:-quick} > build/run_all_$p.log 2>&1; rc=$?
  echo "$p rc=$rc $(( $(date +%s) - s ))s $(grep -c '^VIOLATION' build/run_all_$p.log) viol-lines $(grep -c '^KNOWN-FINDING' build/run_all_$p.log) known | $(tail -1 build/run_all_$p.log)"
done
