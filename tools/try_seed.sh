#!/bin/sh
# usage: try_seed.sh <dir containing patch.diff> <property id> [more ids]
# applies the seeded change to /repo, runs the quick checks, always reverts.
d=$1; shift
cd /repo || exit 2
if ! git diff --quiet; then echo "/repo not clean"; exit 2; fi
if ! git apply "$d/patch.diff" 2>/dev/null; then
  if ! git apply -3 "$d/patch.diff" 2>/dev/null; then echo "PATCH-DOES-NOT-APPLY $d"; git reset -q --hard HEAD; exit 3; fi
  git reset -q
fi
for p in "$@"; do
  (cd /verif && ./check $p ${TIER:+--tier $TIER} > /tmp/try_seed_$p.log 2>&1; echo "$d $p exit=$? $(grep -c '^VIOLATION' /tmp/try_seed_$p.log) violation-lines; $(tail -1 /tmp/try_seed_$p.log)")
done
cd /repo && git checkout -- . && git status --short | head -3
