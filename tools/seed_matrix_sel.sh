#!/bin/sh
# like seed_matrix_all.sh for the seeds matching $1 (a glob below seeded/, e.g. '*-r3-*')
cd /verif; LOG=${LOG:-build/seed_matrix_sel.log}; : > $LOG
for d in seeded/$1; do
  [ -f $d/patch.diff ] || continue
  p=$(python3 -c "import json,sys;print(json.load(open('$d/meta.json'))['property'])")
  tools/try_seed.sh /verif/$d $p >> $LOG 2>&1
done
echo DONE >> $LOG
LOG=$LOG python3 - <<'PY'
import json, re, os
log = os.environ["LOG"]
for l in open(log):
    m = re.match(r"/verif/(seeded/\S+) (C\d+) exit=(\d+) (\d+) violation-lines; (.*)", l)
    if not m:
        continue
    mp = os.path.join(m.group(1), "meta.json")
    meta = json.load(open(mp))
    meta["checks_run_final"] = [{"check": m.group(2), "exit": int(m.group(3)), "violation_lines": int(m.group(4)), "summary": m.group(5)}]
    meta["detected_final"] = int(m.group(3)) == 1
    json.dump(meta, open(mp, "w"), indent=1)
PY
