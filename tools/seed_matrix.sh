#!/bin/sh
# runs every seeded change against the quick check of its own property; one line per seed in build/seed_matrix.log
cd /verif; LOG=${LOG:-build/seed_matrix.log}; : > $LOG
for p in 01 02 03 04 05 06 07 08 09 10 11 12 13 14 15 16 17 18 19 20; do for x in a b; do
  d=${SEEDROOT:-/tmp/seed}/C$p/$x
  [ -f $d/patch.diff ] || continue
  tools/try_seed.sh $d C$p >> $LOG 2>&1
done; done
echo DONE >> $LOG
