#!/bin/sh
# usage: seed_matrix_par.sh <log> <jobs> <seed dir>...   (seed dir holds patch.diff; its property is the C?? component of the path or meta.json's "property")
# Runs the quick check of each seed's own property against a scratch worktree of /repo with the change applied
# (ODML_REPO), from a scratch copy of the committed+working /verif machinery, several at a time.  /repo is not touched.
# Only for measuring; evidence and the registered checks always run in /verif against /repo itself.
LOG=$1; JOBS=$2; shift 2
: > $LOG
for d in "$@"; do echo $d; done | xargs -P $JOBS -I{} sh -c "$(sed "s#__LOG__#$LOG#" <<'F'
d={}; LOG=__LOG__
p=$(python3 -c "import json,re,sys;m=json.load(open('$d/meta.json'));print(m.get('property') or re.search(r'C\d\d','$d').group(0))")
tag=$(echo $d | tr '/' '_')
wt=/tmp/wt/sm$tag; vm=/tmp/vm/sm$tag
rm -rf $vm; mkdir -p /tmp/vm /tmp/wt
git -C /repo worktree add -q --detach $wt HEAD || { echo "$d $p worktree-failed" >> $LOG; exit 0; }
if ! git -C $wt apply $d/patch.diff 2>/dev/null; then echo "PATCH-DOES-NOT-APPLY $d" >> $LOG; git -C /repo worktree remove --force $wt; exit 0; fi
rsync -a --exclude .git --exclude build --exclude seeded --exclude replays /verif/ $vm/
(cd $vm && ODML_REPO=$wt ./check $p ${TIER:+--tier $TIER} > $vm/out.log 2>&1; echo "$d $p exit=$? $(grep -c '^VIOLATION' $vm/out.log) violation-lines; $(tail -1 $vm/out.log)" >> $LOG)
mkdir -p /verif/build/sm_logs; cp $vm/out.log /verif/build/sm_logs/$tag.log
git -C /repo worktree remove --force $wt; rm -rf $vm
F
)"
echo DONE >> $LOG
