#!/usr/bin/env python3
"""Regenerates /verif/MANIFEST.json from the table below (single source of truth)."""
import json, os
V = os.path.dirname(os.path.dirname(os.path.abspath(__file__)))
props = [json.loads(l)["id"] for l in open(os.path.join(V, "properties.jsonl"))]

TECH = "TLA+ reference model checked by TLC; every generated transition replayed into the library; observations judged by a TLC judge module against the contract predicates"
NOTE = ("Trusted: TLC 1.8 and the CommunityModules Json/IOUtils overrides; the harness code that builds real objects for an abstract "
        "state and projects them back through the public API; the token table. Bounds: the universes of the MC_*.cfg files. "
        "A violation is reported only when TLC evaluated a contract predicate to FALSE on an observation of the real code.")

CHECKS = {
 "C03": dict(text="Every transition of the OdmlTree reference model (all reachable worlds of a small universe x all structural editing operations incl. refused ones) is replayed into the real library; seeded histories on one evolving object graph and the traces of the repository's own tests are added; TLC judges WF(pre) => WF(post) on every observation and conformance to the reference model.",
             ref="DESIGN.md 5 C03"),
 "C04": dict(text="Same exploration as C03 judged for UniqueSiblings/NamesOK, plus the OdmlIds model (constructors and new_id of all three kinds x 10 id input classes) judged for canonical ids.",
             ref="DESIGN.md 5 C04"),
 "C05": dict(text="Every (abstract Property state [dtype, number of values], operation, input class, strict flag) of the OdmlValues reference model is replayed into a real Property, plus seeded operation histories on one evolving Property; TLC judges Conforms / DtypeStep / SelfAssign / refused-changes-nothing on each observation and conformance to the reference model.",
             ref="DESIGN.md 5 C05"),
 "C06": dict(text="Atomic(pre,out,post) (a raised call leaves the whole projected world unchanged) is judged by TLC on every observation of every check family that can raise; the refusal disjuncts of the reference models are the enumerated fault set.",
             ref="DESIGN.md 5 C06"),
}
NA = {}

m = {"version": 1,
     "setup_cmd": "./setup.sh",
     "hooks": {"guard": "ODML_VERIF",
               "enable": "no source hooks in /repo; ODML_VERIF=1 switches on the external instrumentation (pytest tracing plugin, scheduler stand-ins) that the checks load from /verif/harness",
               "baseline_off_cmd": "cd /repo && /venv/bin/python -m pytest -ra -q -p no:cacheprovider --timeout=900 --continue-on-collection-errors",
               "source_commits": [], "add_only": True},
     "engines": [{"name": "tlc+replay", "path": "/verif/check", "serves_properties": sorted(CHECKS),
                  "kind_free_text": "TLC (generator, model checker, judge) + Python replay harness driving the real library"}],
     "checks": [], "not_applicable": [],
     "notes": "See DESIGN.md. ./check <id> [--tier quick|thorough] [--replay path]; exit 0 held / 1 VIOLATION / 2 machinery failure."}
for p in props:
    if p in CHECKS:
        c = CHECKS[p]
        m["checks"].append({"property_id": p, "quick_cmd": "./check %s --tier quick" % p,
                            "thorough_cmd": "./check %s --tier thorough" % p,
                            "evidence_file": "/verif/evidence/%s.json" % p,
                            "replay_cmd_template": "./check %s --replay {path}" % p,
                            "engine": "tlc+replay",
                            "level_claimed": {"category": "model_checking", "text": c["text"], "design_ref": c["ref"]},
                            "level_note": c.get("note", NOTE), "technique": c.get("tech", TECH)})
    else:
        m["not_applicable"].append({"property_id": p, "reason": NA.get(p, "check not built yet (construction in progress, see DESIGN.md section 9)")})
json.dump(m, open(os.path.join(V, "MANIFEST.json"), "w"), indent=1)
print("checks:", [c["property_id"] for c in m["checks"]])
