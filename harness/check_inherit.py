"""Family 'inherit' (X01, beyond the listed properties)."""
import os
from . import common as C
from . import par


def observe(tier):
    d = C.fresh_dir(os.path.join(C.BUILD, "inherit"))
    cfg = "MC_Docs_quick.cfg" if tier == "quick" else "MC_Paths_quick.cfg"
    g = C.TlcGen("OdmlPathsGen.tla", cfg, "inherit", workers=8)
    n, files = par.replay_stream(g.chunks(50), "harness.inherit", os.path.join(d, "I"), shard=1500)
    return {"judge": [("JudgeInherit.tla", "JudgeInherit.cfg", files)],
            "tlc": [{"cfg": cfg, "cmd": g.describe(), "states": g.stats["distinct"], "transitions": g.n_lines, "wall_s": round(g.wall, 1)}],
            "records": {"I": n},
            "explanation": "every tree of the generator, decorated with own repositories on some objects and three Section types; get_repository and "
                           "get_terminology_equivalent of every Document, Section and Property judged by TLC against OdmlInherit (nearest ancestor's "
                           "repository; a Section of the terminology with the same type; the same-named Property of that Section)",
            "assumptions": ["terminologies are documents placed in the loader's table; no network"]}
