"""Driver for C03, C04 (structure + names), C06 (structural refusals)."""
import os, sys, time, json, random
from . import common as C
from . import par

TIERS = {
    "quick":    {"cfgs": ["MC_Tree_2s1p.cfg"], "hist": (1500, 30)},
    "thorough": {"cfgs": ["MC_Tree_2s1p.cfg", "MC_Tree_3s1p.cfg"], "hist": (5000, 40)},
}
UNIVERSE = {"d1": "doc", "d2": "doc", "s1": "sec", "s2": "sec", "s3": "sec", "s4": "sec", "p1": "prop", "p2": "prop"}


def observe(tier):
    """Run generator + replays; returns (obs_files, info)."""
    from . import tree
    C.fresh_dir(os.path.join(C.BUILD, "tree"))
    info = {"tlc": [], "records": {}}
    files = []
    for cfg in TIERS[tier]["cfgs"]:
        tag = "tree_" + cfg[:-4]
        g = C.TlcGen("OdmlTree.tla", cfg, tag, workers=8)
        n, fs = par.replay_stream(g.chunks(500), "harness.tree", os.path.join(C.BUILD, "tree", "R_" + cfg[:-4]))
        files += fs
        info["tlc"].append({"cfg": cfg, "cmd": g.describe(), "states": g.stats["distinct"],
                            "transitions": g.n_lines, "wall_s": round(g.wall, 1)})
        info["records"]["R:" + cfg] = n
    nh, depth = TIERS[tier]["hist"]
    rng = random.Random(C.seed())
    n, fs = par.replay_stream(tree.history_cases(nh, depth, rng, UNIVERSE), "harness.tree",
                              os.path.join(C.BUILD, "tree", "H"), fn="replay_history")
    files += fs
    info["records"]["H"] = n
    info["histories"] = nh
    return files, info


def run(pid, tier):
    t0 = time.time()
    files, info = observe(tier)
    verdicts, jinfo = C.run_judges("JudgeTree.tla", "JudgeTree.cfg", files)
    nv, nk, summary = C.settle(pid, verdicts, files, tier)
    total = sum(info["records"].values())
    samples = []
    for f in files[:2]:
        with open(f) as fh:
            r = json.loads(fh.readline())
            samples.append({"op": r["op"], "out": r["out"], "exc": r["exc"], "pre": r["pre"], "post": r["post"]})
    cov = {"states": sum(x["states"] for x in info["tlc"]),
           "transitions": sum(x["transitions"] for x in info["tlc"]),
           "traces_validated_against_impl": total,
           "samples": samples,
           "exhaustive": True,
           "tlc_runs": info["tlc"], "records": info["records"], "judge": jinfo,
           "checker_cmd": jinfo["cmd"], "trusted_base": C.TRUSTED_BASE,
           "explanation": "every transition of the OdmlTree reference model (all reachable worlds of the universe x all operations, "
                          "success and refusal) replayed into the real library from a rebuilt pre-state; seeded histories on one evolving "
                          "object graph; each observation judged by TLC (JudgeTree) against the contract predicates in inductive form",
           }
    cov.update(summary)
    C.write_evidence(pid, tier, "model_checking", cov,
                     ["behaviour of one operation depends only on the projected state (checked by the H-binding, not assumed)",
                      "universe bounded as in the MC_Tree_*.cfg files"], time.time() - t0, nv)
    print("%s: %d observations judged, %d violations, %d known-finding cases, %d divergences (%.0fs)" % (
        pid, total, nv, nk, sum(summary["divergences"].values()), time.time() - t0))
    return 1 if nv else 0
