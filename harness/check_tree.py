"""Driver for C03, C04 (structure + names), C06 (structural refusals)."""
import os, sys, time, json, random
from . import common as C
from . import par

TIERS = {
    "quick":    {"cfgs": ["MC_Tree_2s1p.cfg", "MC_Tree_1s2p.cfg", "MC_Tree_3s0p.cfg", "MC_Tree_1s3p.cfg", "MC_Tree_unn.cfg"], "hist": (1500, 30)},
    "thorough": {"cfgs": ["MC_Tree_2s1p.cfg", "MC_Tree_1s2p.cfg", "MC_Tree_3s0p.cfg", "MC_Tree_1s3p.cfg", "MC_Tree_unn.cfg", "MC_Tree_unn2.cfg", "MC_Tree_3s1p.cfg"], "hist": (5000, 40)},
}
UNIVERSE = {"d1": "doc", "d2": "doc", "s1": "sec", "s2": "sec", "s3": "sec", "s4": "sec", "p1": "prop", "p2": "prop"}


def observe(tier):
    """Run generator + replays; returns (obs_files, info)."""
    from . import tree
    C.fresh_dir(os.path.join(C.BUILD, "tree"))
    info = {"tlc": [], "records": {}}
    files = []
    for cfg in TIERS[tier]["cfgs"]:
        tag = "tree_" + cfg[:-4]
        g = C.TlcGen("OdmlTree.tla", cfg, tag, workers=8)
        n, fs = par.replay_stream(g.chunks(500), "harness.tree", os.path.join(C.BUILD, "tree", "R_" + cfg[:-4]))
        files += fs
        info["tlc"].append({"cfg": cfg, "cmd": g.describe(), "states": g.stats["distinct"],
                            "transitions": g.n_lines, "wall_s": round(g.wall, 1)})
        info["records"]["R:" + cfg] = n
    g = C.TlcGen("OdmlIds.tla", "MC_Ids.cfg", "ids", workers=2)
    n, fs = par.replay_stream(g.chunks(200), "harness.ids", os.path.join(C.BUILD, "tree", "I"), procs=2)
    info["id_files"] = fs
    info["tlc"].append({"cfg": "MC_Ids.cfg", "cmd": g.describe(), "states": g.stats["distinct"],
                        "transitions": g.n_lines, "wall_s": round(g.wall, 1)})
    info["records"]["R:MC_Ids.cfg"] = n
    nh, depth = TIERS[tier]["hist"]
    rng = random.Random(C.seed())
    n, fs = par.replay_stream(tree.history_cases(nh, depth, rng, UNIVERSE), "harness.tree",
                              os.path.join(C.BUILD, "tree", "H"), fn="replay_history")
    files += fs
    info["records"]["H"] = n
    info["histories"] = nh
    # T-binding: the repository's own tests under the external tracing plugin
    import subprocess
    raw = os.path.join(C.BUILD, "tree", "T_raw.ndjson")
    env = dict(os.environ, ODML_VERIF="1", ODML_TRACE_OUT=raw,
               PYTHONPATH=os.path.join(C.VERIF, "harness") + os.pathsep + C.REPO)
    p = subprocess.run([sys.executable, "-m", "pytest", "-q", "-x", "-p", "no:cacheprovider", "-p", "odml_trace_plugin",
                        "--deselect", "test/test_version_converter.py::TestVersionConverter::test_handle_include",
                        "--deselect", "test/test_version_converter.py::TestVersionConverter::test_handle_repository",
                        "test"], cwd=C.REPO, env=env, stdout=subprocess.PIPE, stderr=subprocess.STDOUT, text=True)
    w = C.ObsWriter(os.path.join(C.BUILD, "tree", "T"))
    if os.path.exists(raw):
        for line in open(raw):
            try:
                w.write(json.loads(line))
            except ValueError:
                pass
    w.close()
    files += w.files
    info["records"]["T"] = w.n
    return {"judge": [("JudgeTree.tla", "JudgeTree.cfg", files), ("JudgeIds.tla", "JudgeIds.cfg", info["id_files"])],
            "tlc": info["tlc"], "records": info["records"],
            "explanation": "every transition of the OdmlTree reference model (all reachable worlds of the universe x all structural "
                           "operations, success and refusal) and of the OdmlIds model replayed into the real library from a rebuilt pre-state; "
                           "seeded histories on one evolving object graph (H); the repository's own tests under a tracing plugin (T); each "
                           "observation judged by TLC (JudgeTree/JudgeIds) against the contract predicates in inductive form and for conformance to the reference",
            "assumptions": ["behaviour of one operation depends only on the projected state (checked by the H-binding, not assumed)",
                            "universe bounded as in the MC_Tree_*.cfg files"]}


def replay_record(rec, d):
    from . import tree, ids, world
    w = C.ObsWriter(os.path.join(d, "one"))
    if "kind" in rec and "in" in rec:
        recs = list(ids.replay({"pre": {rec["kind"]: "f" if rec["pre"].startswith("f") else rec["pre"]},
                                "op": rec["op"], "kind": rec["kind"], "in": rec["in"], "named": rec.get("named", True)}))
        judge = ("JudgeIds.tla", "JudgeIds.cfg")
    elif rec.get("src") == "model" and "hist" not in rec:
        recs = list(tree.replay({"pre": world.core(rec["pre"]), "op": rec["op"]}))
        judge = ("JudgeTree.tla", "JudgeTree.cfg")
    else:
        return None
    for r in recs:
        w.write(r)
    w.close()
    return judge[0], judge[1], w.files, recs
