"""Driver for C03, C04 (structure + names), C06 (structural refusals)."""
import os, sys, time, json, random
from . import common as C
from . import par

TIERS = {
    "quick":    {"cfgs": ["MC_Tree_2s1p.cfg"], "hist": (1500, 30)},
    "thorough": {"cfgs": ["MC_Tree_2s1p.cfg", "MC_Tree_3s1p.cfg"], "hist": (5000, 40)},
}
UNIVERSE = {"d1": "doc", "d2": "doc", "s1": "sec", "s2": "sec", "s3": "sec", "s4": "sec", "p1": "prop", "p2": "prop"}


def observe(tier):
    """Run generator + replays; returns (obs_files, info)."""
    from . import tree
    C.fresh_dir(os.path.join(C.BUILD, "tree"))
    info = {"tlc": [], "records": {}}
    files = []
    for cfg in TIERS[tier]["cfgs"]:
        tag = "tree_" + cfg[:-4]
        g = C.TlcGen("OdmlTree.tla", cfg, tag, workers=8)
        n, fs = par.replay_stream(g.chunks(500), "harness.tree", os.path.join(C.BUILD, "tree", "R_" + cfg[:-4]))
        files += fs
        info["tlc"].append({"cfg": cfg, "cmd": g.describe(), "states": g.stats["distinct"],
                            "transitions": g.n_lines, "wall_s": round(g.wall, 1)})
        info["records"]["R:" + cfg] = n
    g = C.TlcGen("OdmlIds.tla", "MC_Ids.cfg", "ids", workers=2)
    n, fs = par.replay_stream(g.chunks(200), "harness.ids", os.path.join(C.BUILD, "tree", "I"), procs=2)
    info["id_files"] = fs
    info["tlc"].append({"cfg": "MC_Ids.cfg", "cmd": g.describe(), "states": g.stats["distinct"],
                        "transitions": g.n_lines, "wall_s": round(g.wall, 1)})
    info["records"]["R:MC_Ids.cfg"] = n
    nh, depth = TIERS[tier]["hist"]
    rng = random.Random(C.seed())
    n, fs = par.replay_stream(tree.history_cases(nh, depth, rng, UNIVERSE), "harness.tree",
                              os.path.join(C.BUILD, "tree", "H"), fn="replay_history")
    files += fs
    info["records"]["H"] = n
    info["histories"] = nh
    # T-binding: the repository's own tests under the external tracing plugin
    import subprocess
    raw = os.path.join(C.BUILD, "tree", "T_raw.ndjson")
    env = dict(os.environ, ODML_VERIF="1", ODML_TRACE_OUT=raw,
               PYTHONPATH=os.path.join(C.VERIF, "harness") + os.pathsep + C.REPO)
    p = subprocess.run([sys.executable, "-m", "pytest", "-q", "-x", "-p", "no:cacheprovider", "-p", "odml_trace_plugin",
                        "--deselect", "test/test_version_converter.py::TestVersionConverter::test_handle_include",
                        "--deselect", "test/test_version_converter.py::TestVersionConverter::test_handle_repository",
                        "test"], cwd=C.REPO, env=env, stdout=subprocess.PIPE, stderr=subprocess.STDOUT, text=True)
    w = C.ObsWriter(os.path.join(C.BUILD, "tree", "T"))
    if os.path.exists(raw):
        for line in open(raw):
            try:
                w.write(json.loads(line))
            except ValueError:
                pass
    w.close()
    files += w.files
    info["records"]["T"] = w.n
    info["test_suite_tail"] = p.stdout.strip().splitlines()[-1:] 
    return files, info


def run(pid, tier):
    t0 = time.time()
    files, info = observe(tier)
    verdicts, jinfo = C.run_judges("JudgeTree.tla", "JudgeTree.cfg", files)
    v2, j2 = C.run_judges("JudgeIds.tla", "JudgeIds.cfg", info["id_files"])
    verdicts += v2
    files = files + info["id_files"]
    nv, nk, summary = C.settle(pid, verdicts, files, tier)
    total = sum(info["records"].values())
    samples = []
    for f in files[:2]:
        with open(f) as fh:
            r = json.loads(fh.readline())
            samples.append({"op": r["op"], "out": r["out"], "exc": r["exc"], "pre": r["pre"], "post": r["post"]})
    cov = {"states": sum(x["states"] for x in info["tlc"]),
           "transitions": sum(x["transitions"] for x in info["tlc"]),
           "traces_validated_against_impl": total,
           "samples": samples,
           "exhaustive": True,
           "tlc_runs": info["tlc"], "records": info["records"], "judge": jinfo,
           "checker_cmd": jinfo["cmd"], "trusted_base": C.TRUSTED_BASE,
           "explanation": "every transition of the OdmlTree reference model (all reachable worlds of the universe x all operations, "
                          "success and refusal) replayed into the real library from a rebuilt pre-state; seeded histories on one evolving "
                          "object graph; each observation judged by TLC (JudgeTree) against the contract predicates in inductive form",
           }
    cov.update(summary)
    C.write_evidence(pid, tier, "model_checking", cov,
                     ["behaviour of one operation depends only on the projected state (checked by the H-binding, not assumed)",
                      "universe bounded as in the MC_Tree_*.cfg files"], time.time() - t0, nv)
    print("%s: %d observations judged, %d violations, %d known-finding cases, %d divergences (%.0fs)" % (
        pid, total, nv, nk, sum(summary["divergences"].values()), time.time() - t0))
    return 1 if nv else 0


def replay_file(pid, path):
    """Re-run exactly the case stored in a replay file and re-judge it."""
    from . import tree, ids, world
    rec = json.load(open(path))["record"]
    d = C.fresh_dir(os.path.join(C.BUILD, "replay_tree"))
    w = C.ObsWriter(os.path.join(d, "one"))
    with C.quiet():
        if "kind" in rec and "in" in rec:
            recs = list(ids.replay({"pre": {rec["kind"]: "f" if rec["pre"].startswith("f") else rec["pre"]},
                                    "op": rec["op"], "kind": rec["kind"], "in": rec["in"]}))
            judge = ("JudgeIds.tla", "JudgeIds.cfg")
        elif rec.get("src") == "model" and "hist" not in rec:
            recs = list(tree.replay({"pre": world.core(rec["pre"]), "op": rec["op"]}))
            judge = ("JudgeTree.tla", "JudgeTree.cfg")
        else:
            print("this record comes from a history or a test trace; re-run the check with the same VERIF_SEED to reproduce it")
            return 2
    for r in recs:
        w.write(r)
    w.close()
    verdicts, _ = C.run_judges(judge[0], judge[1], w.files)
    nv, nk, _ = C.settle(pid, verdicts, w.files, "replay")
    print("replayed %s: out=%s exc=%s -> %d violation(s)" % (path, recs[0]["out"], recs[0]["exc"], nv))
    return 1 if nv else 0
