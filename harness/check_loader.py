"""Family 'loader' (C18)."""
import os, json
from . import common as C
from . import par

GRAPHS = ["chain", "diamond", "missingleaf", "badleaf", "binaryleaf", "headeronly", "flatchain"]
PROGS = ["dA_lA", "dA_lB", "dA_dB_lA_lA", "dD_dB_lD_lD", "lA_lA", "lC_dA_lC", "lD_dD_lD_lD"]
RPROGS = ["lA_rA_lA", "dA_rA_lA_lA", "lC_rC_lC_lC", "dB_rA_lB_lA", "lA_tC_rA_lA", "dA_tB_rA_lA_lB", "lA_tC_rA_lA_lB_lC", "dC_aC_lC", "lC_aC_lC_lB"]        # with refresh (terminology loader only)
CACHES = ["empty", "warm", "stale"]
MC = {"quick": [("chain", "dA_lA", "empty"), ("diamond", "dA_lA", "warm"), ("chain", "dD_dB_lD_lD", "stale"), ("missingleaf", "dD_dB_lD_lD", "empty"),
                ("badleaf", "lC_dA_lC", "warm"), ("diamond", "lC_dA_lC", "empty"), ("chain", "dA_rA_lA_lA", "empty"), ("missingleaf", "lC_rC_lC_lC", "stale"),
                ("chain", "dB_rA_lB_lA", "warm"), ("chain", "lA_tC_rA_lA", "warm"), ("diamond", "dA_tB_rA_lA_lB", "empty"), ("flatchain", "lA_tC_rA_lA_lB_lC", "warm"), ("flatchain", "dA_dB_lA_lA", "empty"), ("missingleaf", "dC_aC_lC", "empty"), ("missingleaf", "lC_aC_lC_lB", "stale")],
      "thorough": [(g, p, c) for g in GRAPHS for p in PROGS + RPROGS for c in CACHES]}


def model_check(tier):
    """every interleaving of the model against the contract (known error classes tolerated so that the
    search continues past them)"""
    runs = []
    for g, p, c in MC[tier] + [("T:" + g, p, c) for g, p, c in MC[tier] if p in PROGS][:(4 if tier == "quick" else 999)]:
        variant = "terminology"
        if g.startswith("T:"):
            g, variant = g[2:], "template"
        env = {"GRAPH": g, "PROG": p, "KNOWN": "known", "CACHE": c, "VARIANT": variant}
        gen = C.TlcGen("MC_Loader.tla", "MC_Loader.cfg", "loader_mc_%s_%s_%s_%s" % (variant, g, p, c), workers=8, env=env, timeout=900)
        try:
            gen.all_lines()
            runs.append({"cfg": "MC_Loader.cfg VARIANT=%s GRAPH=%s PROG=%s CACHE=%s" % (variant, g, p, c), "cmd": gen.describe(), "states": gen.stats["distinct"],
                         "transitions": gen.stats["generated"], "wall_s": round(gen.wall, 1), "result": "all invariants hold"})
        except C.MachineryError as e:
            viol = [l for l in gen.log if "is violated" in l]
            runs.append({"cfg": "MC_Loader.cfg VARIANT=%s GRAPH=%s PROG=%s CACHE=%s" % (variant, g, p, c), "cmd": gen.describe(), "states": gen.stats.get("distinct", 1),
                         "transitions": gen.stats.get("generated", 1), "wall_s": 0, "result": "; ".join(viol) or "error"})
            if not viol:
                raise
    return runs


def observe(tier):
    d = C.fresh_dir(os.path.join(C.BUILD, "loader"))
    tlc = model_check(tier)
    k = 1 if tier == "quick" else 2
    smp = 40 if tier == "quick" else 200
    cases = [[{"graph": g, "prog": p, "max_preempt": k, "sample": smp, "variant": v, "cache": "empty"}]
             for v in ("terminology", "template") for g in GRAPHS for p in PROGS]
    # refresh and the warm / stale download cache
    cases += [[{"graph": g, "prog": p, "max_preempt": k, "sample": smp, "variant": "terminology", "cache": c}]
              for g in GRAPHS for p in RPROGS for c in (CACHES if tier == "thorough" else ("empty", "stale"))]
    cases += [[{"graph": g, "prog": p, "max_preempt": k, "sample": smp, "variant": v, "cache": c}]
              for v in ("terminology", "template") for g in GRAPHS for p in (PROGS if tier == "thorough" else ["dA_lA", "lC_dA_lC"]) for c in ("warm", "stale")]
    # spec -> code: behaviours of the model (TLC simulation of LoaderBeh: random interleavings with many context switches, far
    # beyond the preemption bound of the exploration above) replayed as schedules into the real loader
    nb = 30 if tier == "quick" else 400
    if tier == "quick":
        tsel = [("dA_lB", "empty"), ("dA_dB_lA_lA", "empty"), ("dD_dB_lD_lD", "warm"), ("lC_dA_lC", "empty"), ("dA_rA_lA_lA", "stale"),
                ("dB_rA_lB_lA", "empty"), ("lA_tC_rA_lA_lB_lC", "warm"), ("dC_aC_lC", "empty")]
        hsel = [("dA_lA", "stale"), ("dA_dB_lA_lA", "empty"), ("lC_dA_lC", "warm")]
    else:
        tsel = [(p, c) for p in PROGS + RPROGS for c in CACHES]
        hsel = [(p, c) for p in PROGS for c in CACHES]
    cases += [[{"beh": True, "graph": g, "prog": p, "cache": c, "n": nb, "seed": 11 * i + j}]
              for i, g in enumerate(GRAPHS) for j, (p, c) in enumerate(tsel)]
    cases += [[{"beh": True, "variant": "template", "graph": g, "prog": p, "cache": c, "n": nb, "seed": 7 * i + j}]
              for i, g in enumerate(GRAPHS) for j, (p, c) in enumerate(hsel)]
    # one case is the exploration of all schedules of one (graph, program, cache): it may take minutes on a loaded machine
    n, files = par.replay_stream(cases, "harness.loader", os.path.join(d, "S"), shard=4000, case_timeout=1800)
    return {"judge": [("JudgeLoader.tla", "JudgeLoader.cfg", files)], "tlc": tlc, "records": {"S": n},
            "explanation": "(1) TLC explores every interleaving of the PlusCal model OdmlLoader (table accesses, thread create/start/join, include recursion) for the listed "
                           "include graphs and caller programs against NoRaise/Transparent/SameCached/CacheSafe/Progress; (2) the real odml/terminology.py is run under a "
                           "deterministic scheduler for every schedule with at most %d preemption(s), 4 graphs x 6 programs; every execution is judged by TLC against "
                           "LoaderContract, and a sample of the event logs is validated by TLC as behaviours of OdmlLoader (LoaderTrace); the same exploration and "
                           "contract judging is done for TemplateHandler.load / deferred_load (own tables, includes through the terminology loader); (3) spec -> code: %d behaviours "
                           "per (graph, program, cache) of the model with a history variable (LoaderBeh, TLC simulation mode: random interleavings, many context switches) are replayed as schedules "
                           "into the real loader; each such execution is judged against the contract, and TLC compares the real event sequence and outcome with the model's "
                           "(a difference is a divergence of the model, not a verdict)" % (k, nb),
            "assumptions": ["cache_load is atomic (the property's granularity)", "one thread runs at a time; preemption only at table accesses and thread operations"]}
