"""Family 'reader' (C16)."""
import os
from . import common as C
from . import par
from .check_values import dedupe


def observe(tier):
    d = C.fresh_dir(os.path.join(C.BUILD, "reader"))
    cfg = "MC_Reader_quick.cfg" if tier == "quick" else "MC_Reader_thorough.cfg"
    g = C.TlcGen("OdmlReaderGen.tla", cfg, "reader", workers=4)
    n, files = par.replay_stream(dedupe(g.chunks(100)), "harness.reader", os.path.join(d, "R"), shard=6000)
    return {"judge": [("JudgeReader.tla", "JudgeReader.cfg", files)],
            "tlc": [{"cfg": cfg, "cmd": g.describe(), "states": g.stats["distinct"], "transitions": g.n_lines, "wall_s": round(g.wall, 1)}],
            "records": {"R": n},
            "explanation": "a valid file with up to MaxDefects planted defects (per object: missing / empty / repeated / unknown / differently-cased elements, XML attributes, "
                           "stray text, unparsable values, dtypes, dates, ids, cardinalities, duplicate sibling names, wrong nesting; per file: truncation, dropped close tag, garbage, "
                           "wrong root, wrong / missing version, empty) read by XMLReader strict/lenient x string/file and by the JSON/YAML dictionary reader strict/lenient, each "
                           "read under a step budget; TLC (JudgeReader) judges totality, leniency, warnings-iff-problem, valid-parts-kept and WF/UniqueSiblings of the result",
            "assumptions": ["'arbitrary strings' are represented by the corruption classes only (sampling of the byte level is not attempted)",
                            "JSON/YAML texts that are not syntactically valid are outside the property (input shaped like an odML dictionary)"]}
