"""Family 'validation' (C08)."""
import os
from . import common as C
from . import par
from .check_values import dedupe

CFG = {"quick": "MC_Validation_quick.cfg", "thorough": "MC_Validation_thorough.cfg"}


def observe(tier):
    d = C.fresh_dir(os.path.join(C.BUILD, "validation"))
    cfg = CFG["quick"]
    g = C.TlcGen("OdmlValidationGen.tla", cfg, "validation", workers=8)
    n, files = par.replay_stream(dedupe(g.chunks(200)), "harness.validation", os.path.join(d, "R"), shard=6000)
    tlc = [{"cfg": cfg, "cmd": g.describe(), "states": g.stats["distinct"], "transitions": g.n_lines, "wall_s": round(g.wall, 1)}]
    records = {"R": n}
    if tier == "thorough":
        # all documents two mutations away (above) + one in 40 (by content hash and seed) of those three mutations away
        g3 = C.TlcGen("OdmlValidationGen.tla", CFG["thorough"], "validation3", workers=8)
        n3, f3 = par.replay_stream(dedupe(C.thin(g3.chunks(200), 40)), "harness.validation", os.path.join(d, "R3"), shard=6000)
        files += f3
        records["R3 (1 in 40)"] = n3
        tlc.append({"cfg": CFG["thorough"], "cmd": g3.describe(), "states": g3.stats["distinct"], "transitions": g3.n_lines, "wall_s": round(g3.wall, 1)})
    return {"judge": [("JudgeValidation.tla", "JudgeValidation.cfg", files)],
            "tlc": tlc,
            "records": records,
            "explanation": "every document reachable by <= MaxMut mutations from a valid base document (cleared/unspecified types, names equal to ids, shared ids, "
                           "duplicate sibling names, dependencies on existing/missing Properties and on names of sub-Sections, dependency values matching the first/"
                           "a later/no value, text/int/empty targets, met and unmet cardinalities, values inconsistent with the dtype) validated from the document, "
                           "every Section, every Property and stand-alone copies; TLC (JudgeValidation) compares the reported issues with the transcribed rules",
            "assumptions": ["duplicate sibling names and dtype-inconsistent values are planted through private attributes (documents made invalid on purpose)",
                            "issue kinds 400, 403, 600 and custom kinds are not judged"]}
