"""Family 'validation' (C08)."""
import os
from . import common as C
from . import par
from .check_values import dedupe

CFG = {"quick": "MC_Validation_quick.cfg", "thorough": "MC_Validation_thorough.cfg"}


def observe(tier):
    d = C.fresh_dir(os.path.join(C.BUILD, "validation"))
    cfg = CFG[tier]
    g = C.TlcGen("OdmlValidationGen.tla", cfg, "validation", workers=8)
    n, files = par.replay_stream(dedupe(g.chunks(200)), "harness.validation", os.path.join(d, "R"), shard=6000)
    return {"judge": [("JudgeValidation.tla", "JudgeValidation.cfg", files)],
            "tlc": [{"cfg": cfg, "cmd": g.describe(), "states": g.stats["distinct"], "transitions": g.n_lines, "wall_s": round(g.wall, 1)}],
            "records": {"R": n},
            "explanation": "every document reachable by <= MaxMut mutations from a valid base document (cleared/unspecified types, names equal to ids, shared ids, "
                           "duplicate sibling names, dependencies on existing/missing Properties and on names of sub-Sections, dependency values matching the first/"
                           "a later/no value, text/int/empty targets, met and unmet cardinalities, values inconsistent with the dtype) validated from the document, "
                           "every Section, every Property and stand-alone copies; TLC (JudgeValidation) compares the reported issues with the transcribed rules",
            "assumptions": ["duplicate sibling names and dtype-inconsistent values are planted through private attributes (documents made invalid on purpose)",
                            "issue kinds 400, 403, 600 and custom kinds are not judged"]}
