"""Beyond the listed properties (X04): odml.tools.dumper.dump_doc on every tree of the generator (decorated so that the
attributes the dumper lists are set on some objects and unset on others); the printed text is parsed into
(kind, name, width of the leading blank, names of the attributes listed) entries."""
import io, re, contextlib
from . import common as C
from . import world as W
odml = W.odml
from odml.tools import dumper

SEC_ATTRS = ("type", "definition", "link", "include", "repository")
PROP_ATTRS = ("definition", "values", "uncertainty", "unit", "dtype", "dependency")


def mk(salt):
    def f(h, k, st):
        n = (int(h[1:]) if h[1:].isdigit() else 0) + salt
        if k == "sec":
            return odml.Section(name=st["name"][h], type="t", definition="about %s" % h if n % 2 else None,
                                repository="file:///nonexistent/repo.xml" if n % 3 == 0 else None)
        if k == "prop":
            return odml.Property(name=st["name"][h], values=[n, n + 1] if n % 4 else [], unit="mV" if n % 2 else None,
                                 uncertainty=0.5 if n % 3 == 0 else None, definition="def (x=1), y" if n % 5 == 0 else None,
                                 dependency="other" if n % 3 == 1 else None)
        return None
    return f


def parse(text):
    out = []
    for line in text.splitlines():
        m = re.match(r"^( +)([*:])(\S+) \((.*)\)$", line)
        if not m:
            out.append({"k": "?", "n": line[:20], "sp": 0, "at": []})
            continue
        at = re.findall(r"(?:^|, )([a-z_A-Z]+)=", m.group(4))
        out.append({"k": "sec" if m.group(2) == "*" else "prop", "n": m.group(3), "sp": len(m.group(1)), "at": at})
    return out


def replay(st):
    from .clone import salt_of
    objs = W.build(st, mk=mk(salt_of(st)))
    sets = {}
    for h, k in st["kind"].items():
        o = objs[h]
        if k == "sec":
            sets[h] = [a for a in SEC_ATTRS if getattr(o, a, None) is not None]
        elif k == "prop":
            sets[h] = [a for a in PROP_ATTRS if a == "values" or getattr(o, a, None) is not None]
        else:
            sets[h] = []
    buf = io.StringIO()
    out = "ok"
    try:
        with contextlib.redirect_stdout(buf):
            dumper.dump_doc(objs["d1"])
    except Exception as e:
        out = "raised:" + type(e).__name__
    yield {"fam": "dump", "src": "model", "st": st, "set": sets, "doc": "d1", "out": out, "lines": parse(buf.getvalue())}
