"""C04 (id part): replay of OdmlIds transitions into the real constructors / new_id."""
import re
from . import common as C
odml = C.import_odml()

U = {"u1": "6ba7b810-9dad-11d1-80b4-00c04fd430c8", "u2": "1b4e28ba-2fa1-41d2-883f-0016d3cca427"}
CANON = re.compile(r"^[0-9a-f]{8}-[0-9a-f]{4}-[0-9a-f]{4}-[0-9a-f]{4}-[0-9a-f]{12}$")


def conc_in(tok):
    if tok == "none":
        return None
    if tok.startswith("canon:"):
        return U[tok[6:]]
    if tok == "upper:u1":
        return U["u1"].upper()
    if tok == "braced:u1":
        return "{" + U["u1"] + "}"
    if tok == "urn:u1":
        return "urn:uuid:" + U["u1"]
    if tok == "nohyphen:u1":
        return U["u1"].replace("-", "")
    return {"truncated": U["u1"][:-4], "garbage": "not-a-uuid-at-all", "empty": ""}[tok]


def make(kind, oid, named=True):
    if kind == "doc":
        return odml.Document(oid=oid)
    if kind == "sec":
        return odml.Section(name="alpha" if named else None, type="t", oid=oid)
    return odml.Property(name="alpha" if named else None, values=[1], oid=oid)


def nameis(kind, obj):
    if obj is None or kind == "doc":
        return "-"
    n = obj.name
    return "empty" if n in (None, "") else "given" if n == "alpha" else "id" if n == obj.id else "other"


class Tok(object):
    def __init__(self):
        self.seen = {}
    def __call__(self, s):
        if s is None:
            return "absent"
        for k, v in U.items():
            if s == v:
                return k
        if isinstance(s, str) and CANON.match(s):
            return self.seen.setdefault(s, "f%d" % (len(self.seen) + 1))
        return "bad"


def replay(t):
    kind, op, inp = t["kind"], t["op"], t["in"]
    tok = Tok()
    pre_tok = t["pre"][kind]
    obj = None
    if pre_tok != "absent":
        obj = make(kind, U.get(pre_tok))      # "f": no oid given -> fresh id
    pre = tok(obj.id) if obj is not None else "absent"
    prename = "-" if obj is None or kind == "doc" else str(obj.name)
    out, exc = "ok", "none"
    try:
        if op == "ctor":
            obj = None
            obj = make(kind, conc_in(inp), t.get("named", True))
        else:
            obj.new_id(conc_in(inp))
    except Exception as e:
        out, exc = "raised", type(e).__name__
    post = tok(obj.id) if obj is not None else "absent"
    postname = "-" if obj is None or kind == "doc" else str(obj.name)
    if op == "ctor":
        prename = postname          # a constructor has no previous name
    yield {"fam": "tree", "src": "model", "op": op, "kind": kind, "in": inp, "out": out, "exc": exc,
           "pre": pre, "post": post, "prename": prename, "postname": postname, "named": t.get("named", True), "nameis": nameis(kind, obj),
           "concrete": repr(conc_in(inp))}
