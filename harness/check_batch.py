"""Family 'batch' (C17)."""
import os, json
from . import common as C
from . import par


def unordered(chunks):
    """a directory is a set of files: keep one representative per multiset of files"""
    seen = set()
    for ch in chunks:
        out = []
        for l in ch:
            t = C.decode(l)
            key = json.dumps([sorted(json.dumps(f, sort_keys=True) for f in t["files"]), t["run"]], sort_keys=True)
            if key not in seen:
                seen.add(key)
                out.append(t)
        if out:
            yield out


def observe(tier):
    d = C.fresh_dir(os.path.join(C.BUILD, "batch"))
    cfg = "MC_Batch_quick.cfg" if tier == "quick" else "MC_Batch_thorough.cfg"
    g = C.TlcGen("OdmlBatch.tla", cfg, "batch", workers=4)
    n, files = par.replay_stream(unordered(g.chunks(50)), "harness.batch", os.path.join(d, "R"), shard=4000)
    from . import batch
    n2, f2 = par.replay_stream(batch.fc_cases(), "harness.batch", os.path.join(d, "F"), shard=4000, fn="fc_replay")
    files = files + f2
    n += n2
    return {"judge": [("JudgeBatch.tla", "JudgeBatch.cfg", files)],
            "tlc": [{"cfg": cfg, "cmd": g.describe(), "states": g.stats["distinct"], "transitions": g.n_lines, "wall_s": round(g.wall, 1)}],
            "records": {"R": n},
            "explanation": "every directory of up to MaxFiles files drawn from {valid 1.0 XML/JSON/YAML, valid 1.1 XML/JSON/YAML, empty, non-XML text, malformed XML, XML of another "
                           "vocabulary (each bad kind under every handled extension)} x top level / sub-directory x {odmlconvert, odmltordf} x recursive on/off x explicit/implicit "
                           "output directory, materialised in a private directory and run through the real main(); hashes of the inputs, location and content of every created "
                           "file and the report are judged by TLC (JudgeBatch)",
            "assumptions": ["'reported' = the report has an [Error] or 'Skip recent' line naming the file's path",
                            "the format converter is run on directories of valid files of the kind its target expects, for every target format but trix and nquads (harness/batch.py fc_replay)"]}
