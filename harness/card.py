"""C09: replay of OdmlCard transitions into real Properties / Sections."""
import io
from . import common as C
odml = C.import_odml()
from odml.validation import Validation, IssueID
from odml.tools.odmlparser import ODMLWriter, ODMLReader

N = 99
ATTR = {"values": "val_cardinality", "properties": "prop_cardinality", "sections": "sec_cardinality"}
SETTER = {"values": "set_values_cardinality", "properties": "set_properties_cardinality", "sections": "set_sections_cardinality"}
ISSUE = {"values": IssueID.property_values_cardinality, "properties": IssueID.section_properties_cardinality,
         "sections": IssueID.section_sections_cardinality}


def b2py(b):
    return None if b == N else b


def card2py(c):
    return None if c == [N, N] else (b2py(c[0]), b2py(c[1]))


def py2card(c):
    if c is None:
        return [N, N]
    if isinstance(c, tuple) and len(c) == 2 and all(x is None or (isinstance(x, int) and not isinstance(x, bool)) for x in c):
        return [N if c[0] is None else c[0], N if c[1] is None else c[1]]
    return [-7, -7]      # not a pair at all: falsifies CardNF


def conc_input(x, current=None):
    t = x["t"]
    if t == "samefloat":
        c = current if current not in (None, [N, N]) else [1, 2]
        return tuple(None if b == N else float(b) for b in c)
    if t == "none":
        return None
    if t == "int":
        return x["v"]
    if t == "pair":
        p = (b2py(x["a"]), b2py(x["b"]))
        return list(p) if x.get("l") else p
    return {"str": "(1, 2)", "float": 1.5, "pairfloat": (1.0, 2.5), "tuple1": (1,), "tuple3": (1, 2, 3),
            "tuple3z": (0, 0, 0), "tuple1n": (None,), "list1z": [0], "tuple3n": (None, None, None), "pairstr": ("1", "2"),
            "tuple0": (), "list0": [], "emptystr": "", "float0": 0.0}[t]


def build(s):
    kind, count = s["kind"], s["count"]
    if kind == "values":
        obj = odml.Property(name="p", dtype="int", values=list(range(10, 10 + count)))
    else:
        obj = odml.Section(name="s", type="t")
        for i in range(count):
            if kind == "properties":
                obj.append(odml.Property(name="p%d" % i, values=[i]))
            else:
                obj.append(odml.Section(name="c%d" % i, type="t"))
    setattr(obj, ATTR[kind], card2py(s["card"]))
    return obj


def count_of(obj, kind):
    return len(obj.values) if kind == "values" else len(obj.properties) if kind == "properties" else len(obj.sections)


def observe(obj, kind, reused=None, sibs=True):
    """reused: a Validation object made before the operation; its report() has to show the current state"""
    warn = "raised"
    try:
        if reused is not None:
            reused.report()
            errs = [e for e in reused.errors if e.validation_id == ISSUE[kind] and e.obj is obj]
            r = len(errs) > 0
        errs = [e for e in Validation(obj).errors if e.validation_id == ISSUE[kind] and e.obj is obj]
        warn = len(errs) > 0
        if any(e.rank != "warning" for e in errs):
            warn = "wrong-rank"
        if len(errs) > 1:
            warn = "duplicate"
    except Exception as e:
        warn = "raised:" + type(e).__name__
    rw = warn
    if reused is not None and warn in (True, False):
        rw = r
    # a private validation carrying nothing but the rule of this kind, started two levels above the object
    if warn in (True, False) and obj.parent is None:
        try:
            from odml import validation as V
            rule = {"values": ("property", V.property_values_cardinality), "properties": ("section", V.section_properties_cardinality),
                    "sections": ("section", V.section_sections_cardinality)}[kind]
            doc = odml.Document()
            mid = odml.Section(name="mid", type="t", parent=doc)
            low = odml.Section(name="low", type="t", parent=mid)
            low.append(obj)
            try:
                pv = Validation(doc, validate=False, reset=True)
                pv.register_custom_handler(rule[0], rule[1])
                pv.run_validation()
                hit = any(e.obj is obj and e.validation_id == ISSUE[kind] for e in pv.errors)
            finally:
                low.remove(obj)
            if hit != warn and rw == warn:
                rw = hit
            # the same object next to a twin of equal content under another parent (one default validation of the whole
            # document has to report both or neither), and - a Section - while it carries a resolved link to an empty Section
            if rw == warn:
                low.append(obj)
                try:
                    low2 = odml.Section(name="low2", type="t", parent=mid)
                    twin = obj.clone()
                    low2.append(twin)
                    dv = Validation(doc)
                    got = [any(e.obj is o and e.validation_id == ISSUE[kind] for e in dv.errors) for o in (obj, twin)]
                    if got != [warn, warn]:
                        rw = "twin:%r" % got
                    elif kind != "values":
                        odml.Section(name="tgt", type="t", parent=doc)
                        obj.link = "/tgt"
                        try:
                            got = any(e.obj is obj and e.validation_id == ISSUE[kind] for e in Validation(doc).errors)
                        finally:
                            obj.link = None
                        if got != warn:
                            rw = "linked:%r" % got
                finally:
                    low.remove(obj)
        except Exception as e:
            rw = "raised:" + type(e).__name__
    def tok(v):
        # one type for the judge (TLC cannot compare a string with a boolean): "yes" / "no" / what went wrong
        return "yes" if v is True else "no" if v is False else str(v)
    return {"card": py2card(getattr(obj, ATTR[kind])), "count": count_of(obj, kind), "warn": tok(warn), "rwarn": tok(rw), "sibs": sibs}


def saveload(obj, kind, fmt):
    """the object between an earlier sibling that has cardinalities of its own and later ones that have none / other ones"""
    doc = odml.Document()
    root = odml.Section(name="root", type="t")
    doc.append(root)
    root.append(odml.Section(name="before", type="t", sec_cardinality=(1, 2), prop_cardinality=(1, None)))
    root.append(odml.Property(name="pbefore", values=[1], val_cardinality=(1, 2)))
    root.append(obj)
    root.append(odml.Section(name="after", type="t"))
    root.append(odml.Property(name="pafter", values=[1, 2, 3]))
    root.append(odml.Section(name="last", type="t", sec_cardinality=(None, 7)))
    text = ODMLWriter(fmt).to_string(doc)
    doc2 = ODMLReader(fmt, show_warnings=False).from_string(text)
    r2 = doc2.sections["root"]
    sibs = (r2.sections["before"].sec_cardinality == (1, 2) and r2.sections["before"].prop_cardinality == (1, None)
            and r2.properties["pbefore"].val_cardinality == (1, 2) and r2.sections["after"].sec_cardinality is None
            and r2.sections["after"].prop_cardinality is None and r2.properties["pafter"].val_cardinality is None
            and r2.sections["last"].sec_cardinality == (None, 7) and r2.sections["last"].prop_cardinality is None)
    return (r2.properties["p"] if kind == "values" else r2.sections["s"]), sibs


def replay(t):
    s, op = t["pre"], t["op"]
    kind = s["kind"]
    obj = build(s)
    pre = observe(obj, kind)
    if pre["card"] != s["card"] or pre["count"] != s["count"]:
        raise C.MachineryError("could not build %r: %r" % (s, pre))
    out, exc, res, reused, sibs = "ok", "none", obj, None, True
    try:
        n = op["name"]
        if n in ("add", "remove", "set", "setminmax"):
            reused = Validation(obj)
        if n == "set":
            setattr(obj, ATTR[kind], conc_input(op["x"], s["card"]))
        elif n == "setminmax":
            getattr(obj, SETTER[kind])(b2py(op["x"]["a"]), b2py(op["x"]["b"]))
        elif n == "add":
            if kind == "values":
                obj.append(77)
            elif kind == "properties":
                obj.append(odml.Property(name="new", values=[1]))
            else:
                obj.append(odml.Section(name="new", type="t"))
        elif n == "remove":
            if kind == "values":
                obj.remove(obj.values[-1])
            elif kind == "properties":
                obj.remove(obj.properties[-1])
            else:
                obj.remove(obj.sections[-1])
        elif n == "saveload":
            res, sibs = saveload(obj, kind, op["fmt"])
        else:
            raise C.MachineryError("unknown op " + n)
    except C.MachineryError:
        raise
    except Exception as e:
        out, exc = "raised", type(e).__name__
    post = observe(res, kind, reused, sibs)
    yield {"fam": "card", "src": "model", "kind": kind, "op": op, "out": out, "exc": exc, "pre": pre, "post": post}
