"""Family 'links' (C12)."""
import os
from . import common as C
from . import par

CFG = {"quick": ["MC_Links_quick.cfg"], "thorough": ["MC_Links_quick.cfg", "MC_Links_two.cfg"]}


def observe(tier):
    d = C.fresh_dir(os.path.join(C.BUILD, "links"))
    files, tlc, records = [], [], {}
    for cfg in CFG[tier]:
        g = C.TlcGen("OdmlLinksGen.tla", cfg, "links_" + cfg[:-4], workers=8)
        n, fs = par.replay_stream(g.chunks(100), "harness.links", os.path.join(d, "R_" + cfg[:-4]), shard=4000)
        files += fs
        records["R:" + cfg] = n
        tlc.append({"cfg": cfg, "cmd": g.describe(), "states": g.stats["distinct"], "transitions": g.n_lines, "wall_s": round(g.wall, 1)})
    return {"judge": [("JudgeLinks.tla", "JudgeLinks.cfg", files)], "tlc": tlc, "records": records,
            "explanation": "every tree of the generator x every admissible link placement (LinkShapeOK) x absolute/relative path rendered from the spec's "
                           "PathOf/RelPath, once as links (three concrete name pairs) and once as includes of a file holding the same tree (file:URL#path, a decoy "
                           "file of the same base name loaded first); for each: finalize, clean, save+load, second finalize/clean cycle, then refused assignments of "
                           "unresolvable references on plain / unresolved / resolved Sections; TLC (JudgeLinks) evaluates FinalizePost, RestorePost (incl. that the "
                           "stored link still designates the target according to the spec's Resolve), SavedAfterClean and, for C06, that a refused reference changes nothing",
            "assumptions": ["all Sections have the same type (a same-name/other-type child is the separate known finding of C13)",
                            "uncertainties are compared as text (their type after an XML load is C01's subject)"]}
