"""Beyond the listed properties (X03): Section.pprint on every Section of every tree of the generator, for several
indents and depths; the printed text is parsed into (kind, name, leading blanks) entries."""
import io, re, contextlib
from . import common as C
from . import world as W
odml = W.odml


def mk(h, k, st):
    if k == "sec":
        return odml.Section(name=st["name"][h], type="t")
    if k == "prop":
        n = int(h[1:])
        return odml.Property(name=st["name"][h], values=[n, n + 1], unit="mV" if n % 2 else None)
    return None


def parse(text):
    out = []
    for line in text.splitlines():
        if line.strip() == "[...]":
            out.append({"k": "more", "n": "-", "sp": 0})
            continue
        m = re.match(r"^( *)\|- (\S+): ", line)
        if m:
            out.append({"k": "prop", "n": m.group(2), "sp": len(m.group(1))})
            continue
        m = re.match(r"^( *) (\S+) \[(.*)\]$", line)
        if m:
            out.append({"k": "sec", "n": m.group(2), "sp": len(m.group(1))})
            continue
        out.append({"k": "?", "n": line[:20], "sp": 0})
    return out


def replay(st):
    objs = W.build(st, mk=mk)
    prints = []
    for x, k in st["kind"].items():
        if k != "sec":
            continue
        for indent in (2, 3):
            for maxd in (-1, 0, 1, 2):
                buf = io.StringIO()
                out = "ok"
                try:
                    with contextlib.redirect_stdout(buf):
                        objs[x].pprint(indent=indent, max_depth=maxd)
                except Exception as e:
                    out = "raised:" + type(e).__name__
                prints.append({"x": x, "indent": indent, "maxd": maxd, "out": out, "lines": parse(buf.getvalue())})
    yield {"fam": "outline", "src": "model", "st": st, "prints": prints}
