"""Family 'convert' (C15)."""
import os
from . import common as C
from . import par
from .check_values import dedupe


def observe(tier):
    d = C.fresh_dir(os.path.join(C.BUILD, "convert"))
    cfg = "MC_Convert_quick.cfg"
    g = C.TlcGen("OdmlConvertGen.tla", cfg, "convert", workers=4)
    n, files = par.replay_stream(dedupe(g.chunks(100)), "harness.convert", os.path.join(d, "R"), shard=5000)
    tlc = [{"cfg": cfg, "cmd": g.describe(), "states": g.stats["distinct"], "transitions": g.n_lines, "wall_s": round(g.wall, 1)}]
    records = {"R": n}
    if tier == "thorough":
        # all documents two mutations away (above) + one in 20 (by content hash and seed) of those three mutations away
        g3 = C.TlcGen("OdmlConvertGen.tla", "MC_Convert_thorough.cfg", "convert3", workers=8)
        n3, f3 = par.replay_stream(dedupe(C.thin(g3.chunks(100), 20)), "harness.convert", os.path.join(d, "R3"), shard=5000)
        files += f3
        records["R3 (1 in 20)"] = n3
        tlc.append({"cfg": "MC_Convert_thorough.cfg", "cmd": g3.describe(), "states": g3.stats["distinct"], "transitions": g3.n_lines, "wall_s": round(g3.wall, 1)})
    return {"judge": [("JudgeConvert.tla", "JudgeConvert.cfg", files)],
            "tlc": tlc,
            "records": records,
            "explanation": "every odML 1.0 document reachable by <= MaxMut mutations of a base document (duplicate sibling names, ids valid/absent/malformed, unnamed Properties, "
                           "unsupported elements at document/Section/Property/value level, value attributes on the first/a later/all value elements agreeing and conflicting, "
                           "commas in value texts, 'binary', dependency_value, 0..3 value elements) rendered as XML, JSON and YAML, converted (StringIO, file, write_to_file), "
                           "loaded with the strict reader and judged by TLC (JudgeConvert) against the OdmlConvert contract",
            "assumptions": ["the conversion log is searched for the tag of a dropped element / the words 'already exported' (harness/convert.py log_facts)",
                            "no repository/include URLs (they need the network)"]}
