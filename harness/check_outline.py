"""Family 'outline' (X03, beyond the listed properties)."""
import os
from . import common as C
from . import par


def observe(tier):
    d = C.fresh_dir(os.path.join(C.BUILD, "outline"))
    cfg = "MC_Docs_quick.cfg" if tier == "quick" else "MC_Paths_quick.cfg"
    g = C.TlcGen("OdmlPathsGen.tla", cfg, "outline", workers=8)
    n, files = par.replay_stream(g.chunks(50), "harness.outline", os.path.join(d, "O"), shard=1500)
    return {"judge": [("JudgeOutline.tla", "JudgeOutline.cfg", files)],
            "tlc": [{"cfg": cfg, "cmd": g.describe(), "states": g.stats["distinct"], "transitions": g.n_lines, "wall_s": round(g.wall, 1)}],
            "records": {"O": n},
            "explanation": "Section.pprint of every Section of every tree of the generator x indent {2, 3} x max_depth {-1, 0, 1, 2}; the printed lines, "
                           "parsed into (kind, name, leading blanks), are compared by TLC with the outline OdmlOutline computes from the tree",
            "assumptions": ["names are free of blanks; value texts are short (no line splitting)"]}
