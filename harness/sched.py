"""Deterministic baton-passing scheduler for odml/terminology.py (C18, S-binding).
The code under test is the repository's code, byte for byte: only names in the module
namespace of odml.terminology are replaced (threading, the shared tables) so that exactly
one thread runs at a time and yields at every access to the shared tables and at thread
create / start / join."""
import os, sys, io, json, shutil, tempfile, types, hashlib
import threading as real_threading
from . import common as C
odml = C.import_odml()
import odml.terminology as T


class Sched(object):
    def __init__(self):
        self.threads = {}
        self.back = real_threading.Semaphore(0)
        self.log = []
        self.next_tid = 0
        self.local = real_threading.local()

    def new_tid(self):
        t = self.next_tid
        self.next_tid += 1
        return t

    def register(self, tid):
        self.threads[tid] = dict(sem=real_threading.Semaphore(0), state="created", blocked_on=None,
                                 label=("begin", "-", 0), exc=None)

    def me(self):
        return getattr(self.local, "tid", None)

    def yield_point(self, label):
        tid = self.me()
        if tid is None:
            return
        th = self.threads[tid]
        th["label"] = label
        self.back.release()
        th["sem"].acquire()

    def body(self, tid, fn):
        self.local.tid = tid
        th = self.threads[tid]
        th["sem"].acquire()
        try:
            fn()
        except BaseException as e:
            th["exc"] = e
        th["state"] = "done"
        th["label"] = ("done", "-", 0)
        self.back.release()

    def enabled(self):
        out = []
        for tid, th in sorted(self.threads.items()):
            if th["state"] != "running":
                continue
            b = th["blocked_on"]
            if b is not None and self.threads[b]["state"] != "done":
                continue
            out.append(tid)
        return out

    def step(self, tid):
        th = self.threads[tid]
        th["blocked_on"] = None
        self.log.append((tid,) + tuple(th["label"]))
        th["sem"].release()
        # the thread runs to its next yield point.  If it does not get there it waits for something outside the tables
        # and thread operations the scheduler controls (a lock another - paused - thread holds): with one thread
        # running at a time nobody will ever release it, the call blocks forever
        if not self.back.acquire(timeout=STUCK_AFTER):
            raise Stuck(tid)


S = None
URLKEY = {}
VERS = {}                 # resource name -> how often the caller has changed it at its source ("touch")
APPEARED = set()          # resources that could not be fetched at the start and were made available by the caller ("appear")
STUCK_AFTER = 20.0        # seconds of real time without reaching a yield point (a step normally takes milliseconds)


class Stuck(Exception):
    pass


def key(url):
    return URLKEY.get(url, "?")


class CThread(object):
    def __init__(self, target=None, args=()):
        self.tid = S.new_tid()
        S.register(self.tid)
        self.real = real_threading.Thread(target=S.body, args=(self.tid, lambda: target(*args)), daemon=True)

    def start(self):
        S.yield_point(("start", "-", self.tid))
        if S.threads[self.tid]["state"] != "created":
            self.real.start()                 # raises RuntimeError ('threads can only be started once') exactly like threading does
        S.threads[self.tid]["state"] = "running"
        self.real.start()

    def join(self):
        S.yield_point(("join", "-", self.tid))
        if S.threads[self.tid]["state"] == "created":
            self.real.join()                  # raises RuntimeError exactly like threading does
        me = S.me()
        if S.threads[self.tid]["state"] != "done":
            S.threads[me]["blocked_on"] = self.tid
            S.yield_point(("joined", "-", self.tid))


class TDict(dict):
    tag = "loading"
    def __contains__(self, k):
        S.yield_point(("%s.in" % self.tag, key(k), 0)); return dict.__contains__(self, k)
    def __getitem__(self, k):
        S.yield_point(("%s.get" % self.tag, key(k), 0)); return dict.__getitem__(self, k)
    def __setitem__(self, k, v):
        S.yield_point(("%s.set" % self.tag, key(k), 0)); return dict.__setitem__(self, k, v)
    def pop(self, k, *a):
        S.yield_point(("%s.pop" % self.tag, key(k), 0)); return dict.pop(self, k, *a)


class TTerm(T.Terminologies):
    tag = "loaded"
    __contains__ = TDict.__contains__
    __getitem__ = TDict.__getitem__
    __setitem__ = TDict.__setitem__
    def clear(self):
        S.yield_point(("loaded.clear", "-", 0)); return dict.clear(self)


GRAPHS = {
    "chain": {"A": ["B"], "B": ["C"], "C": [], "D": []},
    "diamond": {"A": ["B", "C"], "B": ["D"], "C": ["D"], "D": []},
    "missingleaf": {"A": ["B"], "B": ["C"], "C": [], "D": []},
    "badleaf": {"A": ["B"], "B": ["C"], "C": [], "D": []},
    "binaryleaf": {"A": ["B"], "B": ["C"], "C": [], "D": []},      # C exists but is not UTF-8 text: the fetch fails
    "headeronly": {"A": ["B"], "B": ["C"], "C": [], "D": []},      # D is a document without any Section
    # the including Sections are top-level Sections of their own (not children of the Section another file includes): a
    # document then carries the content of the files it includes directly, and nothing of what those include in turn
    "flatchain": {"A": ["B"], "B": ["C"], "C": [], "D": []},
}
FLAT = ("flatchain",)


def reach(graph, x):
    """x and everything loading x loads (the include closure)"""
    out, todo = [], [x]
    while todo:
        y = todo.pop(0)
        if y not in out:
            out.append(y)
            todo += GRAPHS[graph][y]
    return out
PROGS = {
    "dA_lA": [("deferred_load", "A"), ("load", "A")],
    "dA_lB": [("deferred_load", "A"), ("load", "B")],
    "dA_dB_lA_lA": [("deferred_load", "A"), ("deferred_load", "B"), ("load", "A"), ("load", "A")],
    "dD_dB_lD_lD": [("deferred_load", "D"), ("deferred_load", "B"), ("load", "D"), ("load", "D")],
    "lA_lA": [("load", "A"), ("load", "A")],
    "lC_dA_lC": [("load", "C"), ("deferred_load", "A"), ("load", "C")],
    "lA_rA_lA": [("load", "A"), ("refresh", "A"), ("load", "A")],
    "dA_rA_lA_lA": [("deferred_load", "A"), ("refresh", "A"), ("load", "A"), ("load", "A")],
    "lC_rC_lC_lC": [("load", "C"), ("refresh", "C"), ("load", "C"), ("load", "C")],
    "dB_rA_lB_lA": [("deferred_load", "B"), ("refresh", "A"), ("load", "B"), ("load", "A")],
    "lD_dD_lD_lD": [("load", "D"), ("deferred_load", "D"), ("load", "D"), ("load", "D")],
    # touch: the resource changes at its source (the caller does that between two calls); a refresh has to see it
    "lA_tC_rA_lA": [("load", "A"), ("touch", "C"), ("refresh", "A"), ("load", "A")],
    "dA_tB_rA_lA_lB": [("deferred_load", "A"), ("touch", "B"), ("refresh", "A"), ("load", "A"), ("load", "B")],
    "lA_tC_rA_lA_lB_lC": [("load", "A"), ("touch", "C"), ("refresh", "A"), ("load", "A"), ("load", "B"), ("load", "C")],
    # appear: a resource that could not be fetched becomes available (the caller does that between two calls)
    "dC_aC_lC": [("deferred_load", "C"), ("appear", "C"), ("load", "C")],
    "lC_aC_lC_lB": [("load", "C"), ("appear", "C"), ("load", "C"), ("load", "B")],
}
REFRESH_PROGS = [p for p, ops in PROGS.items() if any(o == "refresh" for o, _ in ops)]


def fetchable(graph, x):
    return not (graph in ("missingleaf", "binaryleaf") and x == "C")


def parsable(graph, x):
    return not (graph == "badleaf" and x == "C")


def resource_text(graph, x, urls, old=False, ver=0):
    if graph == "headeronly" and x == "D":
        return '<?xml version="1.0" encoding="UTF-8"?>\n<odML version="1.1"><author>%snobody</author></odML>' % ("OLD" if old else "")
    if not parsable(graph, x):
        return '<odML version="1.1"><section><name>sec%s</name>' % x
    body = '<property><name>%sp%s%s</name><value>%s</value><type>string</type></property>' % ("OLD" if old else "", x, "v%d" % ver if ver else "", x)
    if graph in FLAT:
        tops = "".join('<section><name>inc%s</name><type>t</type><include>%s#/sec%s</include></section>' % (y, urls[y], y) for y in GRAPHS[graph][x])
        return '<?xml version="1.0" encoding="UTF-8"?>\n<odML version="1.1"><section><name>sec%s</name><type>t</type>%s</section>%s</odML>' % (x, body, tops)
    for y in GRAPHS[graph][x]:
        body += '<section><name>inc%s</name><type>t</type><include>%s#/sec%s</include></section>' % (y, urls[y], y)
    return '<?xml version="1.0" encoding="UTF-8"?>\n<odML version="1.1"><section><name>sec%s</name><type>t</type>%s</section></odML>' % (x, body)


def make_resources(graph, d):
    """tiny odML files with file: includes; returns {name: url}"""
    urls = {x: "file://" + os.path.join(d, x + ".xml") for x in GRAPHS[graph]}
    for x in GRAPHS[graph]:
        if fetchable(graph, x):
            open(os.path.join(d, x + ".xml"), "w").write(resource_text(graph, x, urls))
        elif graph == "binaryleaf":
            open(os.path.join(d, x + ".xml"), "wb").write(resource_text(graph, x, urls).replace("sec", "s\xe9c").encode("latin-1") + b"\xff\xfe")
    return urls


def cache_path(tmp, url):
    return os.path.join(tmp, "odml.cache", ".".join([hashlib.md5(url.encode()).hexdigest(), os.path.basename(url)]))


def make_cache(graph, urls, tmp, state):
    """the download cache at the start: 'empty'; 'warm': a fresh, identical copy of every resource that exists;
    'stale': an outdated copy (older than the cache age, other content) of every resource, also of a vanished one"""
    if state == "empty":
        return
    os.makedirs(os.path.join(tmp, "odml.cache"), exist_ok=True)
    for x, u in urls.items():
        if state == "warm" and fetchable(graph, x):
            open(cache_path(tmp, u), "w").write(resource_text(graph, x, urls))
        elif state == "stale":
            cp = cache_path(tmp, u)
            open(cp, "w").write(resource_text(graph, x, urls, old=True))
            old = __import__("time").time() - 3 * 86400
            os.utime(cp, (old, old))


def cache_facts(graph, urls, tmp):
    """per url: 'absent' | 'current' (the resource's text) | 'old' (the planted outdated text) | 'other'"""
    out = {}
    for x, u in urls.items():
        cp = cache_path(tmp, u)
        if not os.path.exists(cp):
            out[x] = "absent"
            continue
        data = open(cp).read()
        cur = VERS.get(x, 0)
        out[x] = ("current" if data == resource_text(graph, x, urls, ver=cur) else "old" if data == resource_text(graph, x, urls, old=True)
                  else "outdated" if any(data == resource_text(graph, x, urls, ver=v) for v in range(cur)) else "other")
    return out


def expected_sig(graph, x):
    """what loading x and finalising it has to give, computed from the graph alone"""
    if not (fetchable(graph, x) and parsable(graph, x)):
        return "none"
    if graph == "headeronly" and x == "D":
        return json.dumps({"secs": []}, sort_keys=True)
    if graph in FLAT:
        ok = lambda y: fetchable(graph, y) and parsable(graph, y)
        return json.dumps({"secs": [{"name": "sec" + x, "props": ["p" + x], "secs": []}] +
                                   [{"name": "inc" + y, "props": ["p" + y] if ok(y) else [], "secs": []} for y in GRAPHS[graph][x]]}, sort_keys=True)
    def content(y):
        if not (fetchable(graph, y) and parsable(graph, y)):
            return {"props": [], "secs": []}
        return {"props": ["p" + y], "secs": [dict(name="inc" + z, **content(z)) for z in GRAPHS[graph][y]]}
    return json.dumps({"secs": [dict(name="sec" + x, **content(x))]}, sort_keys=True)


def _pname(n):
    import re
    return re.sub(r"v\d+$", "", n)


def seen_versions(doc):
    """resource name -> version of its text found in the document (property names 'p<X>' / 'p<X>v<n>')"""
    import re
    out = {}
    if doc is None:
        return out
    try:
        for p in doc.iterproperties():
            m = re.match(r"^p([A-D])(?:v(\d+))?$", p.name)
            if m and m.group(1) not in out:
                out[m.group(1)] = int(m.group(2) or 0)
    except Exception:
        pass
    return out


def actual_sig(doc):
    if doc is None:
        return "none"
    def sec(s):
        return {"name": s.name, "props": [_pname(p.name) for p in s.properties], "secs": [sec(c) for c in s.sections]}
    try:
        return json.dumps({"secs": [sec(s) for s in doc.sections]}, sort_keys=True)
    except Exception as e:
        return "unreadable:" + type(e).__name__


def _run(graph, prog, schedule, workdir, variant="terminology", cache="empty"):
    """one execution under `schedule` (list of thread ids; where it gives no usable choice the
    running thread continues, else the lowest enabled one).  Returns a dict."""
    global S, URLKEY
    VERS.clear()
    APPEARED.clear()
    S = Sched()
    d = C.fresh_dir(workdir)
    res_dir = os.path.join(d, "res"); os.makedirs(res_dir)
    tmp = os.path.join(d, "tmp"); os.makedirs(tmp)
    tempfile.tempdir = tmp
    urls = make_resources(graph, res_dir)
    make_cache(graph, urls, tmp, cache)
    cache_before = cache_facts(graph, urls, tmp)
    URLKEY = {u: x for x, u in urls.items()}
    T.threading = types.SimpleNamespace(Thread=CThread)
    T.Terminologies.loading = TDict()
    T.terminologies = TTerm()
    T.load = T.terminologies.load
    T.deferred_load = T.terminologies.deferred_load
    T.refresh = T.terminologies.refresh
    api = T
    if variant == "template":
        # the caller talks to a TemplateHandler (its own tables); includes inside the templates still go
        # through the terminology loader
        import odml.templates as TP
        TP.threading = types.SimpleNamespace(Thread=CThread)
        class TTable(TDict):
            tag = "tloading"
        class THandler(TP.TemplateHandler):
            tag = "tloaded"
            __contains__ = TDict.__contains__
            __getitem__ = TDict.__getitem__
            __setitem__ = TDict.__setitem__
        TP.TemplateHandler.loading = TTable()
        api = THandler()
    results = []

    def main():
        for op, x in PROGS[prog]:
            try:
                if op == "appear":
                    S.yield_point(("appear", x, 0))
                    if not fetchable(graph, x):
                        APPEARED.add(x)
                        open(os.path.join(res_dir, x + ".xml"), "w").write(resource_text(graph, x, urls))
                    results.append({"op": op, "url": x, "res": "ok", "sig": "-", "obj": "-", "vers": {}, "cur": {}, "usable": True})
                    continue
                if op == "touch":
                    S.yield_point(("touch", x, 0))
                    if fetchable(graph, x):
                        VERS[x] = VERS.get(x, 0) + 1
                        open(os.path.join(res_dir, x + ".xml"), "w").write(resource_text(graph, x, urls, ver=VERS[x]))
                    results.append({"op": op, "url": x, "res": "ok", "sig": "-", "obj": "-", "vers": {}, "cur": {}, "usable": True})
                    continue
                r = getattr(api, op)(urls[x])
                seen = seen_versions(r) if op == "load" else {}
                results.append({"op": op, "url": x, "res": "ok", "sig": actual_sig(r) if op == "load" else "-",
                                "obj": "none" if r is None else "o%d" % id(r),
                                "vers": seen, "cur": {y: VERS.get(y, 0) for y in seen},
                                "usable": (fetchable(graph, x) or x in APPEARED) and parsable(graph, x)})
            except BaseException as e:
                results.append({"op": op, "url": x, "res": "raised:" + type(e).__name__, "sig": "-", "obj": "-", "vers": {}, "cur": {}, "usable": True})
                raise

    tid = S.new_tid(); S.register(tid); S.threads[tid]["state"] = "running"
    real_threading.Thread(target=S.body, args=(tid, main), daemon=True).start()
    i, cur, choices, stuck = 0, 0, [], False
    devnull = io.StringIO()
    old = sys.stdout, sys.stderr
    sys.stdout = sys.stderr = devnull
    try:
        while True:
            en = S.enabled()
            if not en:
                break
            if i < len(schedule) and schedule[i] in en:
                choice = schedule[i]
            elif cur in en:
                choice = cur
            else:
                choice = en[0]
            choices.append((choice, list(en)))
            i += 1
            cur = choice
            try:
                S.step(choice)
            except Stuck:
                stuck = True
                break
            if i > 5000:
                break
    finally:
        sys.stdout, sys.stderr = old
        tempfile.tempdir = None
    unfinished = [t for t, th in S.threads.items() if th["state"] == "running"]
    if stuck:
        unfinished = unfinished or [cur]
    cache_after = cache_facts(graph, urls, tmp)
    cached = [x for x in urls if cache_after[x] != "absent"]
    errs = {str(t): ("none" if th["exc"] is None else type(th["exc"]).__name__) for t, th in S.threads.items()}
    return {"results": results, "errs": errs, "log": S.log, "choices": choices, "deadlock": bool(unfinished),
            "cached": sorted(cached), "steps": i, "cache_before": cache_before, "cache_after": cache_after, "stuck": stuck,
            "appeared": sorted(APPEARED)}


def run(graph, prog, schedule, workdir, variant="terminology", cache="empty"):
    r = _run(graph, prog, schedule, workdir, variant, cache)
    from .loader import errname
    r["errs"] = {str(t): errname(th["exc"]) for t, th in S.threads.items()}
    for x in r["results"]:
        if x["res"].startswith("raised:RuntimeError"):
            exc = S.threads[0]["exc"]
            x["res"] = "raised:" + errname(exc) if exc is not None else x["res"]
    return r
