"""C10: RDF export of decorated documents read back as an abstract graph, and import of every
serialisation; judged by spec/JudgeRdf.tla against spec/OdmlRdf.tla."""
import os, io, json, tempfile, shutil, datetime as dt
import rdflib
from rdflib.namespace import RDF, RDFS
from . import common as C
from . import world as W
from . import docs as D
odml = W.odml
from odml.tools.rdf_converter import RDFWriter, RDFReader
from odml.format import Format

NS = str(Format.namespace())
CARRIED = {"doc": ("author", "version", "date"), "sec": ("type", "definition", "reference"),
           "prop": ("dtype", "unit", "uncertainty", "definition", "reference", "value_origin")}
PRED = {"hasAuthor": "author", "hasDocVersion": "version", "hasDate": "date", "hasName": "name", "hasType": "type",
        "hasDefinition": "definition", "hasReference": "reference", "hasDtype": "dtype", "hasUnit": "unit",
        "hasUncertainty": "uncertainty", "hasValueOrigin": "value_origin"}
FORMATS = ["xml", "nt", "json-ld", "turtle", "n3"]


def text(v):
    """attribute value -> text (numbers through float so that 0.5 and '0.5' agree; dates as ISO)"""
    if v is None:
        return None
    if isinstance(v, bool):
        return str(v)
    if isinstance(v, (int, float)):
        return repr(float(v))
    if isinstance(v, (dt.date, dt.datetime)):
        return str(v)
    s = str(v)
    try:
        return repr(float(s)) if s.strip() and s.strip()[0] in "+-0123456789." and not any(c.isalpha() for c in s if c not in "eE") else s
    except ValueError:
        return s


REPOS = ["file:///nonexistent/terminologies/repoA.xml", "file:///nonexistent/terminologies/repoB.xml",
         "file:///nonexistent/terminologies/repoC.xml"]


def set_repositories(docs, variant):
    """several different repository URLs within one export: on Documents and on some of their Sections"""
    from odml import terminology
    for i, d in enumerate(docs):
        d.repository = REPOS[(variant + 2 * i) % 3]
        for j, s in enumerate(d.itersections()):
            if (j + variant) % 3 == 0:
                s.repository = REPOS[(variant + i + j + 1) % 3]
    for t in list(terminology.terminologies.loading.values()):
        try:
            t.join()
        except RuntimeError:
            pass
    terminology.terminologies.loading.clear()


def world_of(docs, idtok):
    objs = {"d%d" % (i + 1): d for i, d in enumerate(docs)}
    st, objs = W.project_full(objs, idtok)
    st["rdfrepo"] = {h: ("none" if getattr(o, "_repository", None) is None else str(o._repository)) if st["kind"][h] in ("doc", "sec") else "none"
                     for h, o in objs.items()}
    st["rdfattrs"] = {}
    for h, o in objs.items():
        k = st["kind"][h]
        a = {}
        for n in CARRIED.get(k, ()):
            v = getattr(o, n, None)
            if v is not None and v != "":
                a[n] = text(v) if n != "dtype" else str(v)
        st["rdfattrs"][h] = a
    # the values as the RDF model carries them: an n-tuple in its text form "(a;b)"
    st["rdfvals"] = {}
    for h, o in objs.items():
        st["rdfvals"][h] = [val_tok("(%s)" % ";".join(v)) if isinstance(v, list) else val_tok(v) for v in o.values] if st["kind"][h] == "prop" else []
    return st, objs


def _round_vals(vals):
    out = []
    for v in vals:
        if v["t"] == "float":
            try:
                out.append({"t": "float", "e": ["%.5g" % float(x) for x in v["e"]]})
                continue
            except ValueError:
                pass
        out.append(v)
    return out


def digits_only(w, r):
    """classification of an import mismatch (not a verdict): everything agrees once floats are compared to 5 significant digits"""
    by_id = {}
    for y, k in r["kind"].items():
        by_id.setdefault(r["id"][y], y)
    for x, k in w["kind"].items():
        if k not in ("doc", "sec", "prop"):
            continue
        y = by_id.get(w["id"][x])
        if y is None or r["kind"][y] != k or r["name"][y] != w["name"][x] or r["rdfattrs"][y] != w["rdfattrs"][x]:
            return False
        if _round_vals(r["vals"][y]) != _round_vals(w["vals"][x]):
            return False
    return True


def val_tok(v):
    return {"t": "list", "e": [W._s(x) for x in v]} if isinstance(v, list) else {"t": type(v).__name__, "e": [W._s(v)]}


def read_graph(g, objs, st):
    """rdflib graph -> abstract graph keyed by handles"""
    byid = {}
    for h, o in objs.items():
        byid.setdefault(str(o.id), []).append(h)
    def hof(node):
        s = str(node)
        if s == NS + "Hub":
            return "Hub"
        if s.startswith(NS):
            hs = byid.get(s[len(NS):])
            if hs:
                return hs[0]
        return "?" + s[-12:]
    out = {"hubs": set(), "hubdocs": [], "nodes": {}, "types": {}, "subclassof": {}, "attrs": {}, "kids": {}, "plist": {}, "vals": {}, "repo": {}}
    out["hubterms"] = sorted(set(str(t) for tn in g.objects(rdflib.URIRef(NS + "Hub"), rdflib.URIRef(NS + "hasTerminology")) for t in g.objects(tn, RDF.type)))
    for s, p, o in g.triples((None, rdflib.URIRef(NS + "hasDocument"), None)):
        out["hubs"].add(hof(s))
        out["hubdocs"].append(hof(o))
    for h, o in objs.items():
        node = rdflib.URIRef(NS + str(o.id))
        out["nodes"][h] = 1 if (node, None, None) in g else 0
        out["types"][h] = sorted(str(t)[len(NS):] if str(t).startswith(NS) else str(t) for t in g.objects(node, RDF.type))
        a = {}
        for p, v in g.predicate_objects(node):
            ps = str(p)
            if ps.startswith(NS) and ps[len(NS):] in PRED and PRED[ps[len(NS):]] != "name":
                a[PRED[ps[len(NS):]]] = text(v.toPython()) if PRED[ps[len(NS):]] != "dtype" else str(v.toPython())
        out["attrs"][h] = a
        out["repo"][h] = sorted(str(t) for tn in g.objects(node, rdflib.URIRef(NS + "hasTerminology")) for t in g.objects(tn, RDF.type))
        out["kids"][h] = sorted(hof(x) for x in g.objects(node, rdflib.URIRef(NS + "hasSection")))
        out["plist"][h] = sorted(hof(x) for x in g.objects(node, rdflib.URIRef(NS + "hasProperty")))
        vals = []
        for seq in g.objects(node, rdflib.URIRef(NS + "hasValue")):
            items = []
            for p, v in g.predicate_objects(seq):
                ps = str(p)
                if ps.startswith(str(RDF) + "_"):
                    items.append((int(ps[len(str(RDF)) + 1:]), v))
            vals += [val_tok(v.toPython()) for _, v in sorted(items, key=lambda t: t[0])]
        out["vals"][h] = vals
    for c, sup in g.subject_objects(RDFS.subClassOf):
        out["subclassof"].setdefault(str(c)[len(NS):], []).append(str(sup)[len(NS):])
    out["hubs"] = sorted(out["hubs"])
    return out


def norm_vals(st, objs):
    """what RDF carries of the values: n-tuples as they are, everything else as stored"""
    return st


def replay(t):
    st0, variant_list = t["st"], t["variants"]
    d = tempfile.mkdtemp(prefix="rdf", dir=os.environ.get("TMPDIR"))
    try:
        for variant, sub, ndocs in variant_list:
            docs = []
            for i in range(ndocs):
                objs0 = W.build(st0, mk=D.mk(variant + 5 * i, t.get("salt", 0) + i))
                docs.append(objs0["d1"])
            set_repositories(docs, variant)
            idtok = W.IdTok()
            w, objs = world_of(docs, idtok)
            dh = ["d%d" % (i + 1) for i in range(ndocs)]
            kw = {"rdf_subclassing": sub != "off"}
            if sub == "custom":
                kw["custom_subclasses"] = {"t": "CustomThing"}
            rec = {"fam": "rdf", "src": "model", "t": "graph", "sub": sub, "ndocs": ndocs, "variant": variant, "docs": dh, "w": w,
                   "out": "ok", "exc": "none", "fmt": "-", "entry": "-"}
            try:
                g = RDFWriter(docs, **kw).convert_to_rdf()
                rec["g"] = read_graph(g, objs, w)
            except Exception as e:
                rec["out"], rec["exc"] = "raised", type(e).__name__
                rec["g"] = {"hubs": [], "hubdocs": [], "nodes": {}, "types": {}, "subclassof": {}, "attrs": {}, "kids": {}, "plist": {}, "vals": {}, "repo": {}, "hubterms": []}
            yield rec
            shared = None
            for fmt in FORMATS:
                for entry in ("string", "file", "reused"):
                    rec = {"fam": "rdf", "src": "model", "t": "import", "sub": sub, "ndocs": ndocs, "variant": variant, "docs": dh, "w": w,
                           "out": "ok", "exc": "none", "fmt": fmt, "entry": entry, "imp": [], "digits_only": False}
                    try:
                        wr = RDFWriter(docs, **kw)
                        if entry == "string":
                            loaded = RDFReader().from_string(wr.get_rdf_str(fmt), fmt)
                        elif entry == "reused":
                            # one writer asked for one serialisation after the other
                            if shared is None:
                                shared = wr
                            loaded = RDFReader().from_string(shared.get_rdf_str(fmt), fmt)
                        else:
                            path = os.path.join(d, "out_%s" % fmt.replace("-", ""))
                            for f in os.listdir(d):
                                os.remove(os.path.join(d, f))
                            wr.write_file(path, fmt)
                            loaded = RDFReader().from_file(os.path.join(d, os.listdir(d)[0]), fmt)
                        r, robjs = world_of(loaded, idtok)
                        rec["r"] = r
                        rec["imp"] = ["d%d" % (i + 1) for i in range(len(loaded))]
                        rec["digits_only"] = digits_only(w, r)
                    except Exception as e:
                        rec["out"], rec["exc"] = "raised", type(e).__name__
                        rec["r"] = world_of([], idtok)[0]
                    yield rec
            # the writer that has exported already, asked again after the document has grown
            if shared is not None:
                try:
                    extra = odml.Section(name="added-later", type="t", parent=docs[0])
                    odml.Property(name="late", values=[0, 5, 0], parent=extra)
                    w2, objs2 = world_of(docs, idtok)
                    rec = {"fam": "rdf", "src": "model", "t": "import", "sub": sub, "ndocs": ndocs, "variant": variant, "docs": dh, "w": w2,
                           "out": "ok", "exc": "none", "fmt": "xml", "entry": "reused-after-edit", "imp": [], "digits_only": False}
                    try:
                        loaded = RDFReader().from_string(shared.get_rdf_str("xml"), "xml")
                        r, robjs = world_of(loaded, idtok)
                        rec["r"] = r
                        rec["imp"] = ["d%d" % (i + 1) for i in range(len(loaded))]
                        rec["digits_only"] = digits_only(w2, r)
                    except Exception as e:
                        rec["out"], rec["exc"] = "raised", type(e).__name__
                        rec["r"] = world_of([], idtok)[0]
                    yield rec
                except Exception:
                    pass
    finally:
        shutil.rmtree(d, ignore_errors=True)
