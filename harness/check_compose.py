"""Family 'compose': seeded histories of whole-document operations (harness/compose.py), two observation streams."""
import os, glob, random
from . import common as C
from . import par


def observe(tier):
    from . import compose
    d = C.fresh_dir(os.path.join(C.BUILD, "compose"))
    n_hist, depth = (400, 25) if tier == "quick" else (3000, 40)
    rng = random.Random(C.seed())
    prefix = os.path.join(d, "K")
    n, _ = par.replay_stream(compose.history_cases(n_hist, depth, rng), "harness.compose", prefix, fn="replay_history", shard=3000)
    tree_files = sorted(glob.glob(prefix + "-tree_w*.ndjson"))
    fmt_files = sorted(glob.glob(prefix + "-formats_w*.ndjson"))
    return {"judge": [("JudgeTree.tla", "JudgeTree.cfg", tree_files), ("JudgeFormats.tla", "JudgeFormats.cfg", fmt_files)],
            "tlc": [], "records": {"K": n},
            "explanation": "%d seeded histories of up to %d whole-document operations on one evolving decorated document (clone and attach, merge, move by "
                           "parent= / append / insert, rename, value edits, create_section / create_property, remove, link, finalize, clean, save in XML / JSON / "
                           "YAML and going on with the loaded document); every structural step is judged by JudgeTree (WF, sibling names, a refused step "
                           "changes nothing) and every save/load step by JudgeFormats (the loaded document equals the one saved, ids included)" % (n_hist, depth),
            "assumptions": ["histories are sampled (seeded), not enumerated; they complement the exhaustive single-step replays by applying "
                            "operations to the results of other operations"]}
