"""Parallel replay: TLC's emitted cases are streamed to worker processes which run them
against the real library and write observation shards."""
import os, glob, json, signal, importlib, multiprocessing as mp
from . import common as C

_W = {}
# library calls that did not return: verdicts ["VIOL", "*", "CallReturns", k, [family module, operation]]
# collected by replay_stream, picked up by the driver
HANG_VERDICTS, HANG_FILES = [], []
CASE_TIMEOUT = float(os.environ.get("VERIF_CASE_TIMEOUT", "120"))


class CaseHang(BaseException):
    """raised by the per-case alarm: a call into the library did not return in time"""


def _alarm(signum, frame):
    raise CaseHang()


def _init(prefix, modname, shard, setup_args, fn="replay", case_timeout=None):
    C.silence_stdout()
    C.import_odml()
    _W["writer"] = C.ObsWriter("%s_w%05d" % (prefix, os.getpid()), shard)
    _W["mod"] = importlib.import_module(modname)
    _W["fn"] = getattr(_W["mod"], fn)
    _W["hangs"], _W["prefix"], _W["modname"] = 0, prefix, modname
    _W["timeout"] = case_timeout or CASE_TIMEOUT
    signal.signal(signal.SIGALRM, _alarm)
    if hasattr(_W["mod"], "worker_setup"):
        _W["mod"].worker_setup(*setup_args)


def _side_record(t, clause, what, detail=""):
    _W["side"] = _W.get("side", 0) + 1
    hp = "%s_hang_w%05d.ndjson" % (_W["prefix"], os.getpid())
    with open(hp, "a") as fh:
        fh.write(json.dumps({"fam": _W["modname"], "clause": clause, "op": what, "record": t, "detail": detail,
                             "k": "%s:%d" % (os.path.basename(hp), _W["side"])}) + "\n")


def _opname(t):
    if isinstance(t, dict):
        op = t.get("op")
        if isinstance(op, dict) and "name" in op:
            return str(op["name"])
    return "case"


def _work(chunk):
    mod, w, n = _W["mod"], _W["writer"], 0
    for line in chunk:
        t = C.decode(line) if isinstance(line, str) else line
        # every case runs under an alarm: a library call that loops is an observation, not a stuck check
        signal.setitimer(signal.ITIMER_REAL, _W["timeout"] if _W["hangs"] < 2 else max(5.0, _W["timeout"] / 15))
        try:
            for rec in _W["fn"](t):
                st = rec.pop("_stream", None) if isinstance(rec, dict) else None
                if st is None:
                    w.write(rec)
                else:
                    # a family may write to several observation streams (one per judge): <prefix>-<stream>_w<pid>_NNN.ndjson
                    ws = _W.setdefault("streams", {})
                    if st not in ws:
                        ws[st] = C.ObsWriter("%s-%s_w%05d" % (_W["prefix"], st, os.getpid()), _W["writer"].shard_size)
                    ws[st].write(rec)
                n += 1
            signal.setitimer(signal.ITIMER_REAL, 0)
        except CaseHang:
            signal.setitimer(signal.ITIMER_REAL, 0)
            _W["hangs"] += 1
            _side_record(t, "CallReturns", _opname(t))
        except C.MachineryError:
            raise
        except Exception as e:
            # a public call the harness makes outside an observed operation (building, projecting, rendering a path)
            # raised: with a correct library this never happens, so it is reported - as an observation, not as a crash
            signal.setitimer(signal.ITIMER_REAL, 0)
            import traceback
            _side_record(t, "NoUnexpectedException", type(e).__name__, traceback.format_exc()[-1500:])
    if w.f:
        w.f.flush()
    for sw in _W.get("streams", {}).values():
        if sw.f:
            sw.f.flush()
    return n


def replay_stream(chunks, modname, prefix, shard=15000, procs=None, setup_args=(), fn="replay", case_timeout=None):
    """chunks: iterable of lists of cases (raw TLC data lines or decoded dicts).
    Returns (n_records, [obs files])."""
    for f in glob.glob(prefix + "_w*.ndjson") + glob.glob(prefix + "_hang_w*.ndjson") + glob.glob(prefix + "-*_w*.ndjson"):
        os.remove(f)
    procs = procs or max(2, C.NCPU - 2)
    total = 0
    ctx = mp.get_context("fork")
    with ctx.Pool(procs, initializer=_init, initargs=(prefix, modname, shard, setup_args, fn, case_timeout)) as pool:
        for n in pool.imap_unordered(_work, chunks, chunksize=1):
            total += n
        pool.close()
        pool.join()
    files = sorted(glob.glob(prefix + "_w*.ndjson"))
    for hp in sorted(glob.glob(prefix + "_hang_w*.ndjson")):
        HANG_FILES.append(hp)
        for line in open(hp):
            r = json.loads(line)
            HANG_VERDICTS.append(["VIOL", "*", r.get("clause", "CallReturns"), r["k"], [modname, r["op"]]])
    return total, files
