"""Parallel replay: TLC's emitted cases are streamed to worker processes which run them
against the real library and write observation shards."""
import os, glob, importlib, multiprocessing as mp
from . import common as C

_W = {}


def _init(prefix, modname, shard, setup_args, fn="replay"):
    C.silence_stdout()
    C.import_odml()
    _W["writer"] = C.ObsWriter("%s_w%05d" % (prefix, os.getpid()), shard)
    _W["mod"] = importlib.import_module(modname)
    _W["fn"] = getattr(_W["mod"], fn)
    if hasattr(_W["mod"], "worker_setup"):
        _W["mod"].worker_setup(*setup_args)


def _work(chunk):
    mod, w, n = _W["mod"], _W["writer"], 0
    for line in chunk:
        t = C.decode(line) if isinstance(line, str) else line
        for rec in _W["fn"](t):
            w.write(rec)
            n += 1
    if w.f:
        w.f.flush()
    return n


def replay_stream(chunks, modname, prefix, shard=15000, procs=None, setup_args=(), fn="replay"):
    """chunks: iterable of lists of cases (raw TLC data lines or decoded dicts).
    Returns (n_records, [obs files])."""
    for f in glob.glob(prefix + "_w*.ndjson"):
        os.remove(f)
    procs = procs or max(2, C.NCPU - 2)
    total = 0
    ctx = mp.get_context("fork")
    with ctx.Pool(procs, initializer=_init, initargs=(prefix, modname, shard, setup_args, fn)) as pool:
        for n in pool.imap_unordered(_work, chunks, chunksize=1):
            total += n
        pool.close()
        pool.join()
    files = sorted(glob.glob(prefix + "_w*.ndjson"))
    return total, files
