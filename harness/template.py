"""Beyond the listed properties (X02): TemplateHandler.clone_section / browse on every tree of the generator,
written as a template file and loaded through the handler."""
import os, io, tempfile, shutil, contextlib
from . import common as C
from . import world as W
from . import clone as CL
odml = W.odml
from odml.tools.odmlparser import ODMLWriter


def replay(st):
    import odml.templates as TP
    from odml import terminology
    d = tempfile.mkdtemp(prefix="tmpl", dir=os.environ.get("TMPDIR"))
    old_tmp = tempfile.tempdir
    tempfile.tempdir = d
    try:
        objs0 = W.build(st, mk=CL.mk_salted(CL.salt_of(st)))
        path = os.path.join(d, "template.xml")
        ODMLWriter("XML").write_file(objs0["d1"], path)
        url = "file://" + path
        th = TP.TemplateHandler()
        TP.TemplateHandler.loading.clear()
        base = {"fam": "template", "src": "model", "children": True, "keep": False, "exc": "none", "touched": []}
        held = th.load(url)
        if held is None:
            raise C.MachineryError("the template written by the library could not be loaded")
        names = [s.name for s in held.sections]
        for name in names:
            for children in (True, False):
                for keep in (False, True):
                    idtok = W.IdTok()
                    objs = {"t1": held}
                    pre, objs = W.project_full(objs, idtok)
                    x = [h for h, o in objs.items() if o is held.sections[name]][0]
                    out, exc, y = "ok", "none", None
                    try:
                        with contextlib.redirect_stdout(io.StringIO()):
                            y = th.clone_section(url, name, children=children, keep_id=keep)
                    except Exception as e:
                        out, exc = "raised", type(e).__name__
                    if y is not None:
                        objs["y1"] = y
                    post, objs = W.project_full(objs, idtok)
                    yield dict(base, t="clone_section", x=x, y="y1", children=children, keep=keep, out=out, exc=exc, pre=pre, post=post)
        idtok = W.IdTok()
        pre, objs = W.project_full({"t1": held}, idtok)
        for t, args in (("missing_section", (url, "no-such-section")), ("missing_resource", ("file://" + os.path.join(d, "absent.xml"), "a"))):
            out, exc = "ok", "none"
            try:
                with contextlib.redirect_stdout(io.StringIO()):
                    th.clone_section(*args)
            except Exception as e:
                out, exc = "raised", type(e).__name__
            post, objs = W.project_full(objs, idtok)
            yield dict(base, t=t, x="t1", y="t1", out=out, exc=exc, pre=pre, post=post)
        out, exc, r = "ok", "none", None
        try:
            with contextlib.redirect_stdout(io.StringIO()):
                r = th.browse(url)
        except Exception as e:
            out, exc = "raised", type(e).__name__
        post, objs = W.project_full(objs, idtok)
        yield dict(base, t="browse", x="t1", y="t1" if r is held else "other", out=out, exc=exc, pre=pre, post=post)
    finally:
        for t in list(terminology.terminologies.loading.values()) + list(TP.TemplateHandler.loading.values()):
            try:
                t.join()
            except RuntimeError:
                pass
        terminology.terminologies.clear(); terminology.terminologies.loading.clear(); TP.TemplateHandler.loading.clear()
        tempfile.tempdir = old_tmp
        shutil.rmtree(d, ignore_errors=True)
