"""Generic per-property driver: a property is decided by one or more observation
families; each family generates cases with TLC, replays them into the real library and
names the TLC judge module for its observation files."""
import os, sys, time, json, importlib
from . import common as C

# family name -> module (must provide observe(tier) and optionally replay_record(rec))
FAMILIES = {
    "tree": "harness.check_tree",
    "values": "harness.check_values",
    "card": "harness.check_card",
    "paths": "harness.check_paths",
    "clone": "harness.check_clone",
    "merge": "harness.check_merge",
    "links": "harness.check_links",
    "validation": "harness.check_validation",
    "registry": "harness.check_registry",
    "save": "harness.check_save",
    "formats": "harness.check_formats",
    "loader": "harness.check_loader",
    "rdf": "harness.check_rdf",
    "query": "harness.check_query",
    "convert": "harness.check_convert",
    "reader": "harness.check_reader",
    "batch": "harness.check_batch",
    "compose": "harness.check_compose",
    "inherit": "harness.check_inherit",
    "template": "harness.check_template",
    "outline": "harness.check_outline",
    "dump": "harness.check_dump",
}
# property -> families whose judges print verdicts for it
PROPS = {
    # (the links and reader judges also print C03/C04 verdicts; those families are run by their own properties; the merge family also serves C04: a merge may not produce two siblings of one name)
    "C03": ["tree", "clone", "links", "compose"], "C04": ["tree", "clone", "compose", "merge"], "C05": ["values"], "C06": ["tree", "values", "card", "merge", "links", "compose"],
    "C09": ["card"],
    "C14": ["paths"],
    "C11": ["clone", "values"],
    "C13": ["merge"],
    "C12": ["links"],
    "C08": ["validation"],
    "C19": ["registry"],
    "C07": ["save"],
    "C18": ["loader"],
    "C10": ["rdf"],
    "C20": ["query"],
    "C15": ["convert"],
    "C16": ["reader"],
    "C17": ["batch"],
    "C01": ["formats", "compose"], "C02": ["formats", "compose"],
    # beyond the listed properties (not in MANIFEST.json; evidence goes to build/)
    "X01": ["inherit"], "X02": ["template"], "X03": ["outline"], "X04": ["dump"],
}
EXPLAIN = {}


def run(pid, tier):
    t0 = time.time()
    verdicts, all_files, cov = [], [], {"tlc_runs": [], "records": {}, "judge": [], "families": PROPS[pid]}
    samples, expl, assume, tb = [], [], [], list(C.TRUSTED_BASE)
    for fam in PROPS[pid]:
        mod = importlib.import_module(FAMILIES[fam])
        res = mod.observe(tier)
        for (jm, jcfg, files) in res["judge"]:
            v, jinfo = C.run_judges(jm, jcfg, files, env=res.get("judge_env"))
            verdicts += v
            all_files += files
            jinfo["module"] = jm
            cov["judge"].append(jinfo)
        cov["tlc_runs"] += res.get("tlc", [])
        for k, n in res.get("records", {}).items():
            cov["records"]["%s/%s" % (fam, k)] = n
        samples += res.get("samples", [])[:2]
        expl.append(res.get("explanation", ""))
        assume += res.get("assumptions", [])
        tb += res.get("trusted_base", [])
        for k, v in res.get("extra", {}).items():
            cov["%s_%s" % (fam, k)] = v
    from . import par
    verdicts += par.HANG_VERDICTS
    all_files += par.HANG_FILES
    cov["calls_that_did_not_return"] = len(par.HANG_VERDICTS)
    nv, nk, summary = C.settle(pid, verdicts, all_files, tier)
    total = sum(cov["records"].values())
    if not samples:
        for f in all_files[:2]:
            with open(f) as fh:
                samples.append(json.loads(fh.readline()))
    cov.update({"states": max(1, sum(x.get("states", 0) for x in cov["tlc_runs"])),
                "transitions": max(1, sum(x.get("transitions", 0) for x in cov["tlc_runs"])),
                "traces_validated_against_impl": total, "samples": samples,
                "checker_cmd": cov["judge"][0]["cmd"] if cov["judge"] else "", "trusted_base": tb,
                "explanation": " | ".join(e for e in expl if e)})
    cov.update(summary)
    C.write_evidence(pid, tier, "model_checking", cov, assume, time.time() - t0, nv)
    print("%s: %d observations judged, %d violations, %d known-finding cases, %d divergences (%.0fs)" % (
        pid, total, nv, nk, sum(summary["divergences"].values()), time.time() - t0))
    return 1 if nv else 0


def replay_file(pid, path):
    data = json.load(open(path))
    rec = data["record"]
    fam = rec.get("fam")
    if fam is None or fam not in FAMILIES:
        print("replay file carries no family tag")
        return 2
    mod = importlib.import_module(FAMILIES[fam])
    if not hasattr(mod, "replay_record"):
        print("family %s has no single-case replay; re-run the check with VERIF_SEED=%s" % (fam, data.get("seed")))
        return 2
    d = C.fresh_dir(os.path.join(C.BUILD, "replay_" + fam))
    with C.quiet():
        res = mod.replay_record(rec, d)
    if res is None:
        print("this record comes from a history or a test trace; re-run the check with VERIF_SEED=%s to reproduce it" % data.get("seed"))
        return 2
    jm, jcfg, files, recs = res
    verdicts, _ = C.run_judges(jm, jcfg, files)
    nv, nk, _ = C.settle(pid, verdicts, files, "replay")
    print("replayed %s: out=%s exc=%s -> %d violation(s)" % (path, recs[0].get("out"), recs[0].get("exc"), nv))
    return 1 if nv else 0
