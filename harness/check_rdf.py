"""Family 'rdf' (C10)."""
import os, json
from . import common as C
from . import par


def cases(chunks, every, seed):
    import zlib
    for ch in chunks:
        for line in ch:
            # chosen and decorated by content, not by position: TLC's emission order varies from run to run
            n = zlib.crc32(line.encode())
            if (n + seed) % every:
                continue
            n = n % 9973
            st = C.decode(line)
            # one document with sub-classing on / off / custom; a list of two documents
            yield [{"st": st, "salt": n, "variants": [(n % 7, "on", 1), ((n + 1) % 7, "off", 1), ((n + 2) % 7, "custom", 1), ((n + 3) % 7, "on", 2)]}]


def observe(tier):
    d = C.fresh_dir(os.path.join(C.BUILD, "rdf"))
    g = C.TlcGen("OdmlPathsGen.tla", "MC_Docs_quick.cfg", "rdf", workers=4)
    every = 12 if tier == "quick" else 1
    n, files = par.replay_stream(cases(g.chunks(50), every, C.seed()), "harness.rdf", os.path.join(d, "R"), shard=1500)
    return {"judge": [("JudgeRdf.tla", "JudgeRdf.cfg", files)],
            "tlc": [{"cfg": "MC_Docs_quick.cfg", "cmd": g.describe(), "states": g.stats["distinct"], "transitions": g.n_lines, "wall_s": round(g.wall, 1)}],
            "records": {"R": n},
            "explanation": "decorated documents over the generated trees (every %d-th in this tier) exported with sub-classing on / off / custom map and as a list of two "
                           "documents; the rdflib graph is read back into the abstract graph of OdmlRdf (nodes by id, types, attributes, containment, Seq members in order) and "
                           "judged by TLC; every serialisation {xml, nt, json-ld, turtle, n3} x string/file is imported with RDFReader and judged for ImportsBackUnchanged" % every,
            "assumptions": ["rdflib is trusted as parser on the harness side", "uncertainty and other numbers compare by value (text of float)"]}
