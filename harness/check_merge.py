"""Family 'merge' (C13)."""
import os
from . import common as C
from . import par
from .check_values import dedupe

CFG = {"quick": "MC_Merge_quick.cfg", "thorough": "MC_Merge_thorough.cfg"}


def observe(tier):
    d = C.fresh_dir(os.path.join(C.BUILD, "merge"))
    cfg = CFG[tier]
    g = C.TlcGen("OdmlMergeGen.tla", cfg, "merge", workers=8)
    n, files = par.replay_stream(dedupe(g.chunks(200)), "harness.merge", os.path.join(d, "R"), shard=3000)
    return {"judge": [("JudgeMerge.tla", "JudgeMerge.cfg", files)],
            "tlc": [{"cfg": cfg, "cmd": g.describe(), "states": g.stats["distinct"], "transitions": g.n_lines, "wall_s": round(g.wall, 1)}],
            "records": {"R": n},
            "explanation": "every pair of Section trees reachable by at most MaxMut mutations from two fully overlapping compatible trees "
                           "(removed objects, other Section type/name, text attributes equal / differing in case+whitespace / differing, other dtype, unit, "
                           "uncertainty, overlapping / disjoint / empty / unconvertible values, at every depth and sibling position) x strict on/off merged for real; "
                           "TLC (JudgeMerge) evaluates MergeComplete, SourceUntouched, StrictRefuses, AllOrNothing on full projections",
            "assumptions": ["converted source values are computed with the library's own dtypes.get (harness/merge.py conv_table)"]}
