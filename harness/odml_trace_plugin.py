"""External pytest plugin (T-binding): logs every public structural editing call the
repository's own tests make, with the projected world before and after the call.
Nothing in /repo is changed; load with  -p odml_trace_plugin  and PYTHONPATH=/verif/harness.
Records go to $ODML_TRACE_OUT (NDJSON), judged by spec/JudgeTree.tla with src = "test".
"""
import json, os, functools, threading

if os.environ.get("ODML_VERIF") == "1" and os.environ.get("ODML_TRACE_OUT"):
    import odml
    from odml import base, section, property as oprop, doc

    OUT = open(os.environ["ODML_TRACE_OUT"], "w")
    _depth = threading.local()
    K = [0]

    def kind(o):
        if isinstance(o, doc.BaseDocument):
            return "doc"
        if isinstance(o, section.BaseSection):
            return "sec"
        if isinstance(o, oprop.BaseProperty):
            return "prop"
        return None

    def children(o):
        k = kind(o)
        secs = list(list.__iter__(getattr(o, "_sections", []))) if k in ("doc", "sec") else []
        props = list(list.__iter__(getattr(o, "_props", []))) if k == "sec" else []
        return secs, props

    def project(start, hmap, keep):
        objs, stack = {}, list(start)
        while stack:
            o = stack.pop(0)
            if kind(o) is None or id(o) in objs:
                continue
            objs[id(o)] = o
            hmap.setdefault(id(o), "o%d" % (len(hmap) + 1))
            s, p = children(o)
            stack += s + p
            par = getattr(o, "_parent", None) if kind(o) != "doc" else None
            if par is not None:
                stack.append(par)
        keep.extend(objs.values())
        st = {"kind": {}, "kids": {}, "plist": {}, "par": {}, "name": {}}
        for i, o in objs.items():
            h, k = hmap[i], kind(o)
            s, p = children(o)
            st["kind"][h] = k
            st["kids"][h] = [hmap.get(id(x), "?") for x in s]
            st["plist"][h] = [hmap.get(id(x), "?") for x in p]
            par = getattr(o, "_parent", None) if k != "doc" else None
            st["par"][h] = "none" if par is None else hmap.get(id(par), "?")
            if k == "doc":
                st["name"][h] = "-"
            else:
                n = getattr(o, "_name", None)
                st["name"][h] = "empty" if n is None or n == "" else str(n)
        return st

    def flat(a):
        out = []
        for x in a:
            if isinstance(x, (list, tuple)):
                out += list(x)
            else:
                out.append(x)
        return out

    def wrap(cls, name, opname, argsel):
        orig = cls.__dict__[name]
        is_prop = isinstance(orig, property)
        f = orig.fset if is_prop else orig

        @functools.wraps(f)
        def w(self, *a, **kw):
            if getattr(_depth, "d", 0) > 0:
                return f(self, *a, **kw)
            _depth.d = 1
            try:
                try:
                    inv = [self] + [x for x in argsel(a) if kind(x)]
                    if isinstance(self, list):
                        inv += [x for x in list.__iter__(self) if kind(x)]
                    hmap, keep = {}, []
                    pre = project(inv, hmap, keep)
                except Exception:
                    pre = None
                out, exc = "ok", "none"
                try:
                    return f(self, *a, **kw)
                except Exception as e:
                    out, exc = "raised", type(e).__name__
                    raise
                finally:
                    if pre is not None:
                        try:
                            post = project(inv + keep, hmap, keep)
                            K[0] += 1
                            OUT.write(json.dumps({"src": "test", "op": {"name": opname}, "out": out, "exc": exc,
                                                  "pre": pre, "post": post,
                                                  "test": os.environ.get("PYTEST_CURRENT_TEST", "?")}) + "\n")
                            OUT.flush()
                        except Exception:
                            pass
            finally:
                _depth.d = 0
        if is_prop:
            setattr(cls, name, property(orig.fget, w, orig.fdel, orig.__doc__))
        else:
            setattr(cls, name, w)

    for _cls in (base.Sectionable, section.BaseSection):
        for _m in ("append", "insert", "extend", "remove"):
            if _m in _cls.__dict__:
                wrap(_cls, _m, _cls.__name__ + "." + _m, flat)
    wrap(section.BaseSection, "parent", "Section.parent=", flat)
    wrap(oprop.BaseProperty, "parent", "Property.parent=", flat)
    wrap(section.BaseSection, "name", "Section.name=", lambda a: [])
    wrap(oprop.BaseProperty, "name", "Property.name=", lambda a: [])
    wrap(base.SmartList, "__setitem__", "SmartList.__setitem__", flat)
    wrap(section.BaseSection, "reorder", "Section.reorder", lambda a: [])
    wrap(oprop.BaseProperty, "reorder", "Property.reorder", lambda a: [])
    wrap(section.BaseSection, "merge", "Section.merge", flat)
    wrap(section.BaseSection, "clean", "Section.clean", lambda a: [])
