"""Driver for C05 (and the value-editing part of C06)."""
import os, sys, time, json, random
from . import common as C
from . import par

TIERS = {"quick": {"cfg": "MC_Values.cfg", "hist": (1500, 12)},
         "thorough": {"cfg": "MC_Values.cfg", "hist": (40000, 20)}}


def dedupe(chunks):
    seen = set()
    for ch in chunks:
        out = []
        for l in ch:
            if l not in seen:
                seen.add(l)
                out.append(l)
        if out:
            yield out


def observe(tier):
    from . import values
    d = C.fresh_dir(os.path.join(C.BUILD, "values"))
    cfg = TIERS[tier]["cfg"]
    g = C.TlcGen("OdmlValues.tla", cfg, "values", workers=4)
    n, files = par.replay_stream(dedupe(g.chunks(500)), "harness.values", os.path.join(d, "R"))
    info = {"tlc": [{"cfg": cfg, "cmd": g.describe(), "states": g.stats["distinct"], "transitions": g.n_lines,
                     "distinct_state_op_pairs": n, "wall_s": round(g.wall, 1)}], "records": {"R": n}}
    nh, depth = TIERS[tier]["hist"]
    rng = random.Random(C.seed())
    n2, f2 = par.replay_stream(values.history_cases(nh, depth, rng), "harness.values", os.path.join(d, "H"), fn="replay_history")
    info["records"]["H"] = n2
    return {"judge": [("JudgeValues.tla", "JudgeValues.cfg", files + f2)], "tlc": info["tlc"], "records": info["records"],
            "trusted_base": ["facts about stored values (type name, text round trip through dtypes.set/get, microsecond) computed by harness/values.py"],
            "explanation": "every (abstract Property state, operation, input class, strict flag) of the OdmlValues model replayed into a real Property; "
                           "seeded operation histories on one evolving Property; TLC (JudgeValues) evaluates Conforms/DtypeStep/SelfAssign/Atomic on each observation",
            "assumptions": ["input classes are represented by one concrete value each (harness/values.py CLASSES)",
                            "dtypes restricted to canonical names, DType members, 2-tuple and 3-tuple"]}


def replay_record(rec, d):
    from . import values
    if rec.get("src") != "model":
        return None
    w = C.ObsWriter(os.path.join(d, "one"))
    pre = {"d": rec["pre"]["dtype"], "n": rec["pre"]["n"]} if rec["pre"]["dtype"] != "absent" else {"d": "none", "n": 0}
    recs = list(values.replay({"pre": pre, "op": rec["op"]}))
    for r in recs:
        w.write(r)
    w.close()
    return "JudgeValues.tla", "JudgeValues.cfg", w.files, recs
