"""Family 'formats' (C01, C02): value text codec + document round trips."""
import os
from . import common as C
from . import par


def sample(chunks, every):
    """every n-th tree (by seed) in the quick tier; all of them in the thorough tier"""
    # chosen by content, not by position: TLC's emission order varies from run to run
    import zlib
    k = C.seed() % every
    for ch in chunks:
        out = [l for l in ch if (zlib.crc32(l.encode() if isinstance(l, str) else repr(l).encode()) + k) % every == 0]
        if out:
            yield out


def observe(tier):
    d = C.fresh_dir(os.path.join(C.BUILD, "formats"))
    cfg = "MC_Codec_quick.cfg" if tier == "quick" else "MC_Codec_thorough.cfg"
    g = C.TlcGen("ValueCodec.tla", cfg, "codec", workers=8)
    n, files = par.replay_stream(g.chunks(200), "harness.codec", os.path.join(d, "V"), shard=6000)
    judges = [("JudgeCodec.tla", "JudgeCodec.cfg", files)]
    tlc = [{"cfg": cfg, "cmd": g.describe(), "states": g.stats["distinct"], "transitions": g.n_lines, "wall_s": round(g.wall, 1)}]
    records = {"V:" + cfg: n}
    dcfg = "MC_Docs_quick.cfg" if tier == "quick" else "MC_Paths_quick.cfg"
    g2 = C.TlcGen("OdmlPathsGen.tla", dcfg, "docs", workers=8)
    chunks = g2.chunks(20)
    if tier == "quick":
        chunks = sample(chunks, 4)
    n2, f2 = par.replay_stream(chunks, "harness.docs", os.path.join(d, "D"), shard=1500)
    judges.append(("JudgeFormats.tla", "JudgeFormats.cfg", f2))
    tlc.append({"cfg": dcfg, "cmd": g2.describe(), "states": g2.stats["distinct"], "transitions": g2.n_lines, "wall_s": round(g2.wall, 1)})
    records["D:" + dcfg] = n2
    return {"judge": judges, "tlc": tlc, "records": records,
            "explanation": "every value list over the character classes {plain, comma, quote, newline, [, ], space, XML metacharacter, non-ASCII} up to the "
                           "configured lengths (TLC checks the codec theorem DecVals(EncVals(v)) = Trim(v) on each) is (a) written and read back by the real XML "
                           "writer/reader, (b) the real written text is decoded by the spec's DecVals, (c) the spec's EncVals written by lxml is read by the real reader, "
                           "(d) round-tripped through JSON and YAML; two concrete characters per class",
            "extra": {"documents": "trees of the generator decorated with every optional attribute, every dtype incl. n-tuples, YAML/JSON-retypable strings, "
                                   "numerically falsy attributes, every cardinality shape; x {XML, JSON, YAML} x string/file x strict/lenient x XML writer options; plus files "
                                   "rendered by an independent minimal writer (harness/docs.py foreign_xml / foreign_dict) read by the real readers"},
            "assumptions": ["claims are per character class; each class has two concrete representatives (harness/codec.py)"]}
