"""C19: histories of validations, custom validations, object creation, cardinality changes,
saves and loads on one evolving interpreter state; the class-level rule registry, the
validated world and the reported issues are observed after every step."""
import os, sys, json, hashlib, subprocess, tempfile, random
from . import common as C
from . import world as W
odml = W.odml
from odml import validation as V

RULES0 = None
VALIDATIONS = ("default_validate", "doc_validate", "section_validate", "property_validate", "rerun_last", "report_last")


def registry_snapshot():
    return {k: sorted(h.__name__ for h in hs) for k, hs in sorted(V.Validation._handlers.items())}


def worker_setup():
    global RULES0
    RULES0 = registry_snapshot()


def custom_rule(obj):
    yield V.ValidationError(obj, "custom rule fired", V.LABEL_WARNING, V.IssueID.custom_validation)


def issues_of(errors):
    out = []
    for e in errors:
        try:
            p = e.obj.get_path()
        except Exception:
            p = "?"
        out.append({"x": "%s|%s" % (type(e.obj).__name__, p), "k": e.validation_id.value if e.validation_id else 0, "rank": str(e.rank),
                    "m": str(e.msg)})
    return out


def digest(doc):
    st, _ = W.project_full({"d": doc}, W.IdTok())
    return hashlib.sha1(json.dumps(st, sort_keys=True).encode()).hexdigest()


REPO_URL = "http://terminology.invalid/v1.1/term.xml"


def term_doc():
    t = odml.Document(author="terminology")
    s = odml.Section(name="t", type="t", parent=t)
    odml.Property(name="p1", values=[1], parent=s)
    return t


def base_doc():
    from odml import terminology
    terminology.terminologies[REPO_URL] = term_doc()      # already "loaded": no network is touched
    doc = odml.Document(author="a", repository=REPO_URL)
    s1 = odml.Section(name="s1", type="t", parent=doc)
    s2 = odml.Section(name="s2", type="n.s.", parent=doc)          # a warning
    odml.Section(name="s3", type="t", parent=s1)
    odml.Property(name="p1", values=[1, 2], parent=s1, val_cardinality=(3, None))   # a warning
    odml.Property(name=None, values=["x"], parent=s2)                                # a warning (name = id)
    odml.Property(name="p3", values=["1", "2"], parent=s2, dtype="string")
    odml.Property(name="p4", values=["2", "2.5"], parent=s2, dtype="string")       # looks like two other dtypes equally often
    odml.Property(name="p5", values=["2020-01-01", "12:00:00", "x"], parent=s2, dtype="string")
    return doc


CHILD = r"""
import sys, json
sys.path.insert(0, %r)
import odml, io, contextlib
from odml import validation as V
buf = io.StringIO()
with contextlib.redirect_stdout(buf), contextlib.redirect_stderr(buf):
    import warnings; warnings.simplefilter("ignore")
    doc = odml.load(sys.argv[1], show_warnings=False)
    errs = V.Validation(doc).errors
out = []
for e in errs:
    out.append({"x": "%%s|%%s" %% (type(e.obj).__name__, e.obj.get_path()), "k": e.validation_id.value if e.validation_id else 0, "rank": str(e.rank),
                "m": str(e.msg)})
print(json.dumps(out))
"""


def replay(t):
    global RULES0
    if RULES0 is None:
        worker_setup()
    hist = t["hist"]
    hid = hashlib.sha1(json.dumps(hist).encode()).hexdigest()
    doc = base_doc()
    cur, registered, cur_target = None, set(), doc
    prevs = {}                      # validation target -> (issues, world digest) of its last run
    lastv, lastkey = None, None
    tmpdir = tempfile.mkdtemp(prefix="reg", dir=os.environ.get("TMPDIR"))
    path = os.path.join(tmpdir, "doc.xml")
    n = 0
    steps = list(hist)
    xproc = int(hid[:4], 16) % 150 == 0 or "xp" in t     # a sample of histories is re-validated in another process
    if xproc:
        steps.append("other_process")
    for i, op in enumerate(steps):
        wpre = digest(doc)
        out, exc, issues, expected, rerun_same = "ok", "none", [], [], True
        try:
            if op == "default_validate":
                lastv, lastkey = V.Validation(doc), "doc"
                issues = issues_of(lastv.errors)
            elif op == "doc_validate":
                lastv, lastkey = doc.validate(), "doc"
                issues = issues_of(lastv.errors)
            elif op == "section_validate":
                lastv, lastkey = V.Validation(doc.sections[0]), "sec"          # a Section with Properties and a sub-Section
                issues = issues_of(lastv.errors)
            elif op == "property_validate":
                lastv, lastkey = V.Validation(doc.sections[0].properties[0]), "prop"
                issues = issues_of(lastv.errors)
            elif op == "rerun_last" and lastv is not None:
                lastv.run_validation()
                issues = issues_of(lastv.errors)
            elif op == "report_last" and lastv is not None:
                lastv.report()
                issues = issues_of(lastv.errors)
            elif op == "clone_validate":
                # a copy of the document, edited so that it differs from the original, validated through Document.validate()
                # and through a new Validation object: two validations of one unchanged object
                c = doc.clone()
                c.sections[0].type = None
                odml.Property(name="only-in-the-copy", parent=c.sections[0], values=[1, 2], val_cardinality=(3, None))
                with C.quiet():
                    issues = issues_of(c.validate().errors)
                    again = issues_of(V.Validation(c).errors)
                rerun_same = sorted(map(json.dumps, again)) == sorted(map(json.dumps, issues))
                issues = []          # (not compared with the validations of the original)
            elif op == "new_custom":
                # both documented ways of making a private validation
                # ... on the document, or prepared on an object that is still empty (no Sections / children / values)
                sel = int(hid[4:6], 16) % 5
                cur_target = [doc, doc, odml.Document(), odml.Section(name="empty", type="t"), odml.Property(name="novalues")][sel]
                cur = V.Validation(cur_target, reset=True) if sel == 0 else V.Validation(cur_target, validate=False, reset=True)
                registered = set()
            elif op == "register_optional" and cur is not None:
                cur.register_custom_handler("section", V.section_repository_present)
                cur.register_custom_handler("property", V.property_terminology_check)
                cur.register_custom_handler("section", V.section_unique_ids)
                cur.register_custom_handler("section", V.property_unique_ids)     # the rule walks the Properties of a Section
            elif op.startswith("register_") and cur is not None:
                cur.register_custom_handler(op[9:], custom_rule)
                registered.add(op[9:])
            elif op == "run_custom" and cur is not None:
                cur.run_validation()
                issues = issues_of(cur.errors)
                # the same unchanged objects validated again by the same private instance
                cur.run_validation()
                rerun_same = sorted(map(json.dumps, issues_of(cur.errors))) == sorted(map(json.dumps, issues))
                tsecs = list(cur_target.itersections()) if hasattr(cur_target, "itersections") else []
                if isinstance(cur_target, odml.section.BaseSection):
                    tsecs = [cur_target] + tsecs
                tprops = [cur_target] if isinstance(cur_target, odml.property.BaseProperty) else []
                for p in tprops:
                    if "property" in registered:
                        expected.append({"x": "BaseProperty|%s" % p.get_path(), "k": 701, "rank": "warning", "m": "custom rule fired"})
                for s in tsecs:
                    if "section" in registered:
                        expected.append({"x": "BaseSection|%s" % s.get_path(), "k": 701, "rank": "warning", "m": "custom rule fired"})
                    for p in s.properties:
                        if "property" in registered:
                            expected.append({"x": "BaseProperty|%s" % p.get_path(), "k": 701, "rank": "warning", "m": "custom rule fired"})
            elif op == "create_section":
                n += 1
                odml.Section(name="new%d" % n, type="t", parent=doc.sections[0], sec_cardinality=(0, 3))
            elif op == "create_property":
                n += 1
                odml.Property(name="newp%d" % n, values=[n], parent=doc.sections[0], val_cardinality=(0, 3))
            elif op == "set_card":
                doc.sections[0].prop_cardinality = (0, 9)
                doc.sections[0].properties[0].val_cardinality = (1, 9)
                doc.sections[0].sec_cardinality = (5, None)
            elif op == "save":
                odml.save(doc, path)
            elif op == "load":
                if os.path.exists(path):
                    odml.load(path, show_warnings=False)
            elif op == "other_process":
                odml.save(doc, path)
                loaded = odml.load(path, show_warnings=False)
                prevs["xp"] = (issues_of(V.Validation(loaded).errors), wpre)
                lastkey = "xp"
                env = dict(os.environ, PYTHONHASHSEED=str(t["xp"] if "xp" in t else 1 + int(hid[6:10], 16) % 1000))
                r = subprocess.run([sys.executable, "-c", CHILD % C.REPO, path], env=env, stdout=subprocess.PIPE,
                                   stderr=subprocess.PIPE, text=True, timeout=120)
                issues = json.loads(r.stdout.strip().splitlines()[-1])
        except Exception as e:
            out, exc = "raised", type(e).__name__
        wpost = digest(doc)
        key = lastkey if (op in VALIDATIONS or op == "other_process") and lastkey is not None else None
        prev, prevworld = prevs.get(key, ([], "-")) if key else ([], "-")
        if op in ("rerun_last", "report_last") and lastv is None:
            key = None
        yield {"fam": "registry", "src": "model", "hist": hist, "step": i, "op": op, "out": out, "exc": exc,
               "rules0": RULES0, "rules": registry_snapshot(), "worldpre": wpre, "worldpost": wpost,
               "rerun_same": rerun_same, "issues": issues, "custom_issues": [x for x in issues if x["k"] == 701], "prev": prev, "prevworld": prevworld, "custom_expected": expected}
        if key and op in VALIDATIONS and out == "ok":
            prevs[key] = (issues, wpost)
    import shutil
    shutil.rmtree(tmpdir, ignore_errors=True)
