"""C14: every tree of the OdmlPathsGen model is built for real and interrogated:
get_path / lookups / relative paths / iterators / find / find_related."""
from . import common as C
from . import world as W
odml = W.odml


# concrete Section types (the generator knows one type): exact, sub-typed, one whose leading part merely contains "stim"
TYPES = ["t", "stim/t", "restim/x", "stim", "rec/stim/noise"]


def mk(h, k, st):
    if k == "sec":
        return odml.Section(name=st["name"][h], type=st["type"][h])
    if k == "prop":
        n = st.get("nvals", {}).get(h, 1)
        return odml.Property(name=st["name"][h], values=list(range(1, n + 1)))
    return None


def decorate(st):
    """types and value counts derived from the tree (the generator's trees carry one type and no values)"""
    from .clone import salt_of
    salt = salt_of(st)
    st = dict(st)
    # half of the trees keep the generator's single type (there, different Sections can be equal in content)
    if salt % 2:
        st["type"] = {h: (TYPES[(int(h[1:]) + salt) % len(TYPES)] if k == "sec" else t) for (h, k), t in
                      zip(st["kind"].items(), [st["type"][h] for h in st["kind"]])}
    st["nvals"] = {h: ((int(h[1:]) + salt) % 3 if k == "prop" else 0) for h, k in st["kind"].items()}
    st["typeparts"] = {t: t.lower().split("/") for t in set(st["type"].values()) if isinstance(t, str)}
    return st


def tok_path(s):
    """tokenise a path string (trusted, trivial): '/a/ab:p' -> abs, steps, prop"""
    prop = "none"
    if ":" in s:
        s, prop = s.split(":", 1)
    ab = s.startswith("/")
    body = s[1:] if ab else s
    steps = [x for x in body.split("/")] if body != "" else []
    return {"abs": ab, "steps": steps, "prop": prop, "raw": s if prop == "none" else s + ":" + prop}


def hof(hid, o):
    if o is None:
        return "none"
    return hid.get(id(o), "?" + type(o).__name__)


def safe(fn, hid):
    try:
        r = fn()
        if isinstance(r, list):
            return [hof(hid, x) for x in r]
        return hof(hid, r)
    except Exception as e:
        return "raised:" + type(e).__name__


def replay(st):
    st = decorate(st)
    objs = W.build(st, mk=mk)
    from .clone import salt_of
    if salt_of(st) % 3:
        # the tree interrogated below is the result of a history: it was built in another Document, looked at there
        # (document, paths, traversals) and then moved, top-level Section by top-level Section, into this one
        old = objs["d1"]
        for h, o in objs.items():
            if st["kind"][h] in ("sec", "prop"):
                o.document, o.get_path()
                if st["kind"][h] == "sec":
                    list(o.itersections()), list(o.iterproperties())
                    for c in o.sections:
                        o.get_section_by_path(c.get_path())
        new = odml.Document()
        for top in list(old.sections):
            new.append(top)
        objs["d1"] = new
    hid = {id(o): h for h, o in objs.items() if o is not None}
    live = [h for h, k in st["kind"].items() if k in ("sec", "prop")]
    secs = [h for h in live if st["kind"][h] == "sec"]
    conts = ["d1"] + secs
    paths, lookups, rels, iters, finds = [], [], [], [], []
    for x in live:
        try:
            p = objs[x].get_path()
        except Exception as e:
            p = "raised:" + type(e).__name__
        paths.append({"x": x, "path": tok_path(p)})
        for c in conts:
            if st["kind"][x] == "sec":
                res = safe(lambda: objs[c].get_section_by_path(p), hid)
            else:
                res = safe(lambda: objs[c].get_property_by_path(p), hid)
            lookups.append({"x": x, "start": c, "res": res})
    for a in secs:
        for b in secs:
            try:
                r = objs[a].get_relative_path(objs[b])
                res = safe(lambda: objs[a].get_section_by_path(r), hid)
            except Exception as e:
                r, res = "raised:" + type(e).__name__, "raised:" + type(e).__name__
            rels.append({"a": a, "b": b, "path": tok_path(r), "res": res})
    maxd = max([0] + [len(tok_path(objs[s].get_path())["steps"]) for s in secs])
    for c in conts:
        for depth in [-1] + list(range(0, maxd + 2)):
            d = None if depth < 0 else depth
            for ys, filt in ((False, "none"), (True, "none"), (False, "sel"), (True, "sel")):
                # filt "sel": Sections / Properties named "a", value lists that are empty
                e = {"start": c, "depth": depth, "yieldself": ys, "filt": filt}
                kw = {} if filt == "none" else {"filter_func": lambda x: x.name == "a"}
                kwv = {} if filt == "none" else {"filter_func": lambda v: len(v) == 0}
                e["secs"] = safe(lambda: list(objs[c].itersections(max_depth=d, yield_self=ys, **kw)), hid)
                e["props"] = safe(lambda: list(objs[c].iterproperties(max_depth=d, **kw)), hid)
                try:
                    vals = list(objs[c].itervalues(max_depth=d, **kwv))
                    if filt == "sel":
                        # empty lists cannot be told apart: compared by number (vals = handles of the value-less Properties in order)
                        allp = safe(lambda: list(objs[c].iterproperties(max_depth=d)), hid)
                        empt = [p for p in allp if isinstance(allp, list) and len(objs[p].values) == 0] if isinstance(allp, list) else []
                        e["vals"] = empt if (len(vals) == len(empt) and all(v == [] for v in vals)) else ["?mismatch"]
                        raise StopIteration
                    # a value list is identified by the property that owns an equal list, in order
                    e["vals"] = e["props"] if isinstance(e["props"], list) and len(vals) == len(e["props"]) and \
                        all(v == objs[p].values for v, p in zip(vals, e["props"])) else ["?mismatch"]
                except StopIteration:
                    pass
                except Exception as ex:
                    e["vals"] = "raised:" + type(ex).__name__
                for f in ("secs", "props", "vals"):
                    if not isinstance(e[f], list):
                        e[f] = ["?" + str(e[f])]
                iters.append(e)
    names = sorted(set(st["name"][h] for h in secs)) + ["zz"]
    types = sorted(set(st["type"][h] for h in secs) | {"stim"})
    for c in conts:
        for key in ["none"] + names:
            for typ in ["none"] + types:
                if key == "none" and typ == "none":
                    continue
                k, t = (None if key == "none" else key), (None if typ == "none" else typ)
                for fa in (False, True):
                    for sub in (False, True):
                        r = safe(lambda: objs[c].find(key=k, type=t, findAll=fa, include_subtype=sub), hid)
                        finds.append({"fn": "find", "start": c, "key": key, "type": typ, "all": fa, "res": norm(r), "sub": sub,
                                      "children": True, "siblings": False, "parents": False, "recursive": False})
                    for (ch, si, pa, rec) in ((True, True, True, True), (True, False, False, True), (True, False, False, False),
                                              (False, True, False, True), (False, False, True, True), (False, False, True, False))[:: (1 if fa else 2)]:
                        r = safe(lambda: objs[c].find_related(key=k, type=t, children=ch, siblings=si, parents=pa,
                                                              recursive=rec, findAll=fa), hid)
                        finds.append({"fn": "find_related", "start": c, "key": key, "type": typ, "all": fa, "res": norm(r), "sub": False,
                                      "children": ch, "siblings": si, "parents": pa, "recursive": rec})
    yield {"fam": "paths", "src": "model", "st": st, "paths": paths, "lookups": lookups, "rels": rels,
           "iters": iters, "finds": finds}


def norm(r):
    if r == "none":
        return []
    if isinstance(r, list):
        return r
    return [r]
