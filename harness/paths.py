"""C14: every tree of the OdmlPathsGen model is built for real and interrogated:
get_path / lookups / relative paths / iterators / find / find_related."""
from . import common as C
from . import world as W
odml = W.odml


def mk(h, k, st):
    if k == "sec":
        return odml.Section(name=st["name"][h], type=st["type"][h])
    if k == "prop":
        return odml.Property(name=st["name"][h], values=[1])
    return None


def tok_path(s):
    """tokenise a path string (trusted, trivial): '/a/ab:p' -> abs, steps, prop"""
    prop = "none"
    if ":" in s:
        s, prop = s.split(":", 1)
    ab = s.startswith("/")
    body = s[1:] if ab else s
    steps = [x for x in body.split("/")] if body != "" else []
    return {"abs": ab, "steps": steps, "prop": prop, "raw": s if prop == "none" else s + ":" + prop}


def hof(hid, o):
    if o is None:
        return "none"
    return hid.get(id(o), "?" + type(o).__name__)


def safe(fn, hid):
    try:
        r = fn()
        if isinstance(r, list):
            return [hof(hid, x) for x in r]
        return hof(hid, r)
    except Exception as e:
        return "raised:" + type(e).__name__


def replay(st):
    objs = W.build(st, mk=mk)
    hid = {id(o): h for h, o in objs.items() if o is not None}
    live = [h for h, k in st["kind"].items() if k in ("sec", "prop")]
    secs = [h for h in live if st["kind"][h] == "sec"]
    conts = ["d1"] + secs
    paths, lookups, rels, iters, finds = [], [], [], [], []
    for x in live:
        try:
            p = objs[x].get_path()
        except Exception as e:
            p = "raised:" + type(e).__name__
        paths.append({"x": x, "path": tok_path(p)})
        for c in conts:
            if st["kind"][x] == "sec":
                res = safe(lambda: objs[c].get_section_by_path(p), hid)
            else:
                res = safe(lambda: objs[c].get_property_by_path(p), hid)
            lookups.append({"x": x, "start": c, "res": res})
    for a in secs:
        for b in secs:
            try:
                r = objs[a].get_relative_path(objs[b])
                res = safe(lambda: objs[a].get_section_by_path(r), hid)
            except Exception as e:
                r, res = "raised:" + type(e).__name__, "raised:" + type(e).__name__
            rels.append({"a": a, "b": b, "path": tok_path(r), "res": res})
    maxd = max([0] + [len(tok_path(objs[s].get_path())["steps"]) for s in secs])
    for c in conts:
        for depth in [-1] + list(range(0, maxd + 2)):
            d = None if depth < 0 else depth
            for ys in (False, True):
                e = {"start": c, "depth": depth, "yieldself": ys}
                e["secs"] = safe(lambda: list(objs[c].itersections(max_depth=d, yield_self=ys)), hid)
                e["props"] = safe(lambda: list(objs[c].iterproperties(max_depth=d)), hid)
                try:
                    vals = list(objs[c].itervalues(max_depth=d))
                    # a value list is identified by the property that owns an equal list, in order
                    e["vals"] = e["props"] if isinstance(e["props"], list) and len(vals) == len(e["props"]) and \
                        all(v == objs[p].values for v, p in zip(vals, e["props"])) else ["?mismatch"]
                except Exception as ex:
                    e["vals"] = "raised:" + type(ex).__name__
                for f in ("secs", "props", "vals"):
                    if not isinstance(e[f], list):
                        e[f] = ["?" + str(e[f])]
                iters.append(e)
    names = sorted(set(st["name"][h] for h in secs)) + ["zz"]
    types = sorted(set(st["type"][h] for h in secs))
    for c in conts:
        for key in ["none"] + names:
            for typ in ["none"] + types:
                if key == "none" and typ == "none":
                    continue
                k, t = (None if key == "none" else key), (None if typ == "none" else typ)
                for fa in (False, True):
                    r = safe(lambda: objs[c].find(key=k, type=t, findAll=fa), hid)
                    finds.append({"fn": "find", "start": c, "key": key, "type": typ, "all": fa, "res": norm(r),
                                  "children": True, "siblings": False, "parents": False, "recursive": False})
                    for (ch, si, pa, rec) in ((True, True, True, True), (True, False, False, True), (True, False, False, False),
                                              (False, True, False, True), (False, False, True, True), (False, False, True, False))[:: (1 if fa else 2)]:
                        r = safe(lambda: objs[c].find_related(key=k, type=t, children=ch, siblings=si, parents=pa,
                                                              recursive=rec, findAll=fa), hid)
                        finds.append({"fn": "find_related", "start": c, "key": key, "type": typ, "all": fa, "res": norm(r),
                                      "children": ch, "siblings": si, "parents": pa, "recursive": rec})
    yield {"fam": "paths", "src": "model", "st": st, "paths": paths, "lookups": lookups, "rels": rels,
           "iters": iters, "finds": finds}


def norm(r):
    if r == "none":
        return []
    if isinstance(r, list):
        return r
    return [r]
