"""C18: (1) TLC model-checks OdmlLoader (every interleaving) against the contract; (2) the real
terminology.py is explored under all schedules with a bounded number of preemptions, every
execution is judged against LoaderContract and a sample of the recorded traces is validated
by TLC against OdmlLoader (LoaderTrace)."""
import os, sys, json, subprocess, hashlib
from . import common as C
from . import sched


def errname(e):
    if e is None:
        return "none"
    msg = str(e)
    if isinstance(e, RuntimeError) and "before it is started" in msg:
        return "RuntimeError:join-before-start"
    return type(e).__name__


def explore(graph, prog, max_preempt, workdir, limit=4000, variant="terminology", cache="empty"):
    """all schedules with at most max_preempt deviations from 'keep running the current thread'"""
    seen, out = set(), []
    stack = [([], 0)]
    while stack and len(out) < limit:
        prefix, p = stack.pop()
        key = tuple(prefix)
        if key in seen:
            continue
        seen.add(key)
        r = sched.run(graph, prog, prefix, workdir, variant, cache)
        r["prefix"], r["preemptions"] = prefix, p
        out.append(r)
        if p < max_preempt:
            ch = r["choices"]
            for i in range(len(prefix), len(ch)):
                for alt in ch[i][1]:
                    if alt != ch[i][0]:
                        stack.append(([c for c, _ in ch[:i]] + [alt], p + 1))
    return out


def replay(t):
    """t = {graph, prog, max_preempt, sample}: explore and emit one record per execution"""
    graph, prog = t["graph"], t["prog"]
    wd = os.path.join(os.environ.get("TMPDIR", C.BUILD), "loader_%d" % os.getpid())
    variant = t.get("variant", "terminology")
    cache = t.get("cache", "empty")
    runs = explore(graph, prog, t["max_preempt"], wd, variant=variant, cache=cache)
    names = list(sched.GRAPHS[graph])
    for n, r in enumerate(runs):
        errs = []
        for tid in sorted(sched.S.threads if False else r["errs"], key=int):
            errs.append(r["errs"][tid])
        rec = {"fam": "loader", "src": "model", "variant": variant, "graph": graph, "prog": prog, "prefix": r["prefix"], "preemptions": r["preemptions"],
               "results": r["results"], "errs": errs, "deadlock": r["deadlock"], "cached": r["cached"],
               "cache": cache, "cache_before": r["cache_before"], "cache_after": r["cache_after"],
               "fetchok": {x: sched.fetchable(graph, x) for x in names},
               "expected": {x: sched.expected_sig(graph, x) for x in names},
               "steps": r["steps"], "trace_checked": False, "trace_accepted": True}
        if variant == "terminology" and n % t["sample"] == 0:
            rec["trace_checked"] = True
            rec["trace_accepted"], rec["trace_reached"] = validate_trace(graph, prog, r["log"], wd, cache)
        yield rec


def validate_trace(graph, prog, log, wd, cache="empty"):
    """TLC: is the recorded event log a behaviour of OdmlLoader?"""
    os.makedirs(wd, exist_ok=True)
    tf = os.path.join(wd, "trace.ndjson")
    with open(tf, "w") as f:
        for tid, k, u, th in log:
            f.write(json.dumps({"tid": tid, "k": k, "u": u, "t": th}) + "\n")
    meta = C.fresh_dir(os.path.join(wd, "meta"))
    env = dict(os.environ, GRAPH=graph, PROG=prog, KNOWN="known", CACHE=cache, TRACE_FILE=tf,
               JAVA_TOOL_OPTIONS="-Dtlc2.tool.queue.IStateQueue=StateDeque")
    cmd = C.tlc_cmd("LoaderTrace.tla", "LoaderTrace.cfg", 1, meta, xmx="1g")
    p = subprocess.run(cmd, cwd=C.SPEC, env=env, stdout=subprocess.PIPE, stderr=subprocess.STDOUT, text=True)
    ok = "Model checking completed. No error has been found" in p.stdout
    reached = -1
    for line in p.stdout.splitlines():
        if line.startswith('"[') and "REJECTED" in line:
            reached = json.loads(json.loads(line))[1]
    return ok, reached
