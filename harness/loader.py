"""C18: (1) TLC model-checks OdmlLoader (every interleaving) against the contract; (2) the real
terminology.py is explored under all schedules with a bounded number of preemptions, every
execution is judged against LoaderContract and a sample of the recorded traces is validated
by TLC against OdmlLoader (LoaderTrace)."""
import os, sys, json, subprocess, hashlib
from . import common as C
from . import sched


def errname(e):
    if e is None:
        return "none"
    msg = str(e)
    if isinstance(e, RuntimeError) and "before it is started" in msg:
        return "RuntimeError:join-before-start"
    if isinstance(e, RuntimeError) and "can only be started once" in msg:
        return "RuntimeError:start-twice"
    return type(e).__name__


def explore(graph, prog, max_preempt, workdir, limit=4000, variant="terminology", cache="empty"):
    """all schedules with at most max_preempt deviations from 'keep running the current thread'"""
    seen, out = set(), []
    stack = [([], 0)]
    while stack and len(out) < limit:
        prefix, p = stack.pop()
        key = tuple(prefix)
        if key in seen:
            continue
        seen.add(key)
        r = sched.run(graph, prog, prefix, workdir, variant, cache)
        r["prefix"], r["preemptions"] = prefix, p
        out.append(r)
        if r.get("stuck"):
            break             # threads of this process now wait for each other for good: nothing more can be run here
        if p < max_preempt:
            ch = r["choices"]
            for i in range(len(prefix), len(ch)):
                for alt in ch[i][1]:
                    if alt != ch[i][0]:
                        stack.append(([c for c, _ in ch[:i]] + [alt], p + 1))
    return out


def behaviours(graph, prog, cache, n, seed, wd, variant="terminology"):
    """spec -> code: n behaviours of OdmlLoader from TLC's simulation mode (LoaderBeh: the model with a history
    variable holding the observable events; one JSON line per terminal state)"""
    meta = C.fresh_dir(os.path.join(wd, "meta_beh"))
    env = dict(os.environ, GRAPH=graph, PROG=prog, KNOWN="known", CACHE=cache, VARIANT=variant)
    cmd = C.tlc_cmd("LoaderBeh.tla", "LoaderBeh.cfg", 1, meta, xmx="2g",
                    extra=["-simulate", "num=%d" % n, "-depth", "5000", "-seed", str(seed)])
    p = subprocess.run(cmd, cwd=C.SPEC, env=env, stdout=subprocess.PIPE, stderr=subprocess.STDOUT, text=True, timeout=900)
    out = [C.decode(l) for l in p.stdout.splitlines() if l.startswith('"{')]
    if not out or "Error:" in p.stdout:
        raise C.MachineryError("LoaderBeh simulation produced no behaviour for %s %s %s:\n%s" % (graph, prog, cache, p.stdout[-1500:]))
    seen, uniq = set(), []
    for b in out:
        key = json.dumps(b["hist"])
        if key not in seen:
            seen.add(key)
            uniq.append(b)
    return uniq


def replay_behaviours(t, wd):
    """every behaviour is replayed as a schedule into the real terminology.py: the thread the model moved at each
    observable event is the thread the scheduler lets run; the record carries the model's event sequence and outcome
    next to the real ones (compared by JudgeLoader) and all fields of the contract"""
    graph, prog, cache = t["graph"], t["prog"], t.get("cache", "empty")
    variant = t.get("variant", "terminology")
    names = list(sched.GRAPHS[graph])
    for b in behaviours(graph, prog, cache, t["n"], t.get("seed", 1) + C.seed(), wd, variant):
        r = sched.run(graph, prog, [e["tid"] for e in b["hist"]], wd, variant, cache)
        errs = [r["errs"][tid] for tid in sorted(r["errs"], key=int)]
        loads = [x for x in r["results"] if x["op"] == "load" and x["res"] == "ok"]
        objs = []
        for x in loads:
            if x["obj"] not in objs:
                objs.append(x["obj"])
        yield {"fam": "loader", "src": "behaviour", "variant": variant, "graph": graph, "prog": prog, "prefix": [], "preemptions": -1,
               "results": r["results"], "errs": errs, "deadlock": r["deadlock"], "cached": r["cached"],
               "cache": cache, "cache_before": r["cache_before"], "cache_after": r["cache_after"],
               "fetchok": {x: sched.fetchable(graph, x) or x in r.get("appeared", []) for x in names}, "reach": {x: sched.reach(graph, x) for x in names},
               "expected": {x: sched.expected_sig(graph, x) for x in names},
               "steps": r["steps"], "trace_checked": False, "trace_accepted": True,
               "model_log": b["hist"], "real_log": [{"tid": a, "k": k, "u": u, "t": th} for a, k, u, th in r["log"]],
               "model_terminal": b["terminal"],
               "model_loads": [{"url": x[0], "none": x[1] == 99, "doc": x[1], "epoch": x[2]} for x in b["results"]],
               "real_loads": [{"url": x["url"], "none": x["sig"] == "none", "doc": objs.index(x["obj"])} for x in loads],
               "model_err": [b["err"][kk] for kk in sorted(b["err"], key=int)] if isinstance(b["err"], dict) else list(b["err"]),
               "real_err": [{"none": "ok", "RuntimeError:join-before-start": "RuntimeError", "RuntimeError:start-twice": "RuntimeError"}.get(e, e) for e in errs],
               "model_cache": b["cache"],
               "real_cache": {x: {"current": "fresh", "old": "stale", "outdated": "fresh"}.get(v, v) for x, v in r["cache_after"].items()}}
        if r.get("stuck"):
            break             # threads of this process now wait for each other for good: nothing more can be run here


def replay(t):
    """t = {graph, prog, max_preempt, sample}: explore and emit one record per execution"""
    graph, prog = t["graph"], t["prog"]
    if t.get("beh"):
        wd = os.path.join(os.environ.get("TMPDIR", C.BUILD), "loaderbeh_%d" % os.getpid())
        for rec in replay_behaviours(t, wd):
            yield rec
        return
    wd = os.path.join(os.environ.get("TMPDIR", C.BUILD), "loader_%d" % os.getpid())
    variant = t.get("variant", "terminology")
    cache = t.get("cache", "empty")
    runs = explore(graph, prog, t["max_preempt"], wd, variant=variant, cache=cache)
    names = list(sched.GRAPHS[graph])
    for n, r in enumerate(runs):
        errs = []
        for tid in sorted(sched.S.threads if False else r["errs"], key=int):
            errs.append(r["errs"][tid])
        rec = {"fam": "loader", "src": "model", "variant": variant, "graph": graph, "prog": prog, "prefix": r["prefix"], "preemptions": r["preemptions"],
               "results": r["results"], "errs": errs, "deadlock": r["deadlock"], "cached": r["cached"],
               "cache": cache, "cache_before": r["cache_before"], "cache_after": r["cache_after"],
               "fetchok": {x: sched.fetchable(graph, x) or x in r.get("appeared", []) for x in names}, "reach": {x: sched.reach(graph, x) for x in names},
               "expected": {x: sched.expected_sig(graph, x) for x in names},
               "steps": r["steps"], "trace_checked": False, "trace_accepted": True}
        if n % t["sample"] == 0:
            rec["trace_checked"] = True
            rec["trace_accepted"], rec["trace_reached"] = validate_trace(graph, prog, r["log"], wd, cache, variant)
        yield rec


def validate_trace(graph, prog, log, wd, cache="empty", variant="terminology"):
    """TLC: is the recorded event log a behaviour of OdmlLoader?"""
    os.makedirs(wd, exist_ok=True)
    tf = os.path.join(wd, "trace.ndjson")
    with open(tf, "w") as f:
        for tid, k, u, th in log:
            f.write(json.dumps({"tid": tid, "k": k, "u": u, "t": th}) + "\n")
    meta = C.fresh_dir(os.path.join(wd, "meta"))
    env = dict(os.environ, GRAPH=graph, PROG=prog, KNOWN="known", CACHE=cache, TRACE_FILE=tf, VARIANT=variant,
               JAVA_TOOL_OPTIONS="-Dtlc2.tool.queue.IStateQueue=StateDeque")
    cmd = C.tlc_cmd("LoaderTrace.tla", "LoaderTrace.cfg", 1, meta, xmx="1g")
    p = subprocess.run(cmd, cwd=C.SPEC, env=env, stdout=subprocess.PIPE, stderr=subprocess.STDOUT, text=True)
    ok = "Model checking completed. No error has been found" in p.stdout
    reached = -1
    for line in p.stdout.splitlines():
        if line.startswith('"[') and "REJECTED" in line:
            reached = json.loads(json.loads(line))[1]
    return ok, reached
