"""Family 'clone' (C11; re-checks C03/C04 on the worlds copy operations produce)."""
import os
from . import common as C
from . import par

CFG = {"quick": ["MC_Clone_quick.cfg"], "thorough": ["MC_Clone_quick.cfg", "MC_Paths_quick.cfg"]}


def observe(tier):
    d = C.fresh_dir(os.path.join(C.BUILD, "clone"))
    files, tlc, records = [], [], {}
    for cfg in CFG[tier]:
        g = C.TlcGen("OdmlPathsGen.tla", cfg, "clone_" + cfg[:-4], workers=8)
        n, fs = par.replay_stream(g.chunks(50), "harness.clone", os.path.join(d, "R_" + cfg[:-4]), shard=4000)
        files += fs
        records["R:" + cfg] = n
        tlc.append({"cfg": cfg, "cmd": g.describe(), "states": g.stats["distinct"], "transitions": g.n_lines, "wall_s": round(g.wall, 1)})
    return {"judge": [("JudgeClone.tla", "JudgeClone.cfg", files)], "tlc": tlc, "records": records,
            "explanation": "every tree of the generator, every node as clone root x (children, keep_id) and as export_leaf root; "
                           "then seeded edits applied to the copy and to the original, and mutation of value lists handed out / passed in; "
                           "TLC (JudgeClone) evaluates ClonePost, ExportLeafPost and the frame conditions on full projections (structure, every attribute, nested value lists, ids)",
            "assumptions": ["attribute values are derived from the handle (harness/clone.py mk); the spec treats them as opaque tokens"]}
