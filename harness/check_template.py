"""Family 'template' (X02, beyond the listed properties)."""
import os
from . import common as C
from . import par


def observe(tier):
    d = C.fresh_dir(os.path.join(C.BUILD, "template"))
    cfg = "MC_Docs_quick.cfg" if tier == "quick" else "MC_Paths_quick.cfg"
    g = C.TlcGen("OdmlPathsGen.tla", cfg, "template", workers=8)
    n, files = par.replay_stream(g.chunks(50), "harness.template", os.path.join(d, "T"), shard=1500)
    return {"judge": [("JudgeTemplate.tla", "JudgeTemplate.cfg", files)],
            "tlc": [{"cfg": cfg, "cmd": g.describe(), "states": g.stats["distinct"], "transitions": g.n_lines, "wall_s": round(g.wall, 1)}],
            "records": {"T": n},
            "explanation": "every tree of the generator written as a template file; TemplateHandler.clone_section for every top-level Section x children x "
                           "keep_id, an unknown Section name, an unloadable resource, browse; judged by TLC (JudgeTemplate: OdmlClone!ClonePost, the held "
                           "template left alone, the documented exception classes)",
            "assumptions": ["file: URLs; the download cache is redirected into a private directory"]}
