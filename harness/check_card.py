"""Family 'card' (C09, cardinality part of C06)."""
import os
from . import common as C
from . import par


def observe(tier):
    d = C.fresh_dir(os.path.join(C.BUILD, "card"))
    cfgs = ["MC_Card.cfg"] + (["MC_Card_wide.cfg"] if tier == "thorough" else [])
    files, tlc, records = [], [], {}
    for cfg in cfgs:
        g = C.TlcGen("OdmlCard.tla", cfg, "card_" + cfg[:-4], workers=4)
        n, fs = par.replay_stream(g.chunks(500), "harness.card", os.path.join(d, "R_" + cfg[:-4]))
        files += fs
        records["R:" + cfg] = n
        tlc.append({"cfg": cfg, "cmd": g.describe(), "states": g.stats["distinct"], "transitions": g.n_lines,
                    "wall_s": round(g.wall, 1)})
    extra = {}
    if tier == "thorough":
        # unbounded part: Apalache proves CardNF(FormatCard((a, b))) for ALL integers a, b (model level)
        import subprocess, shutil
        out = os.path.join(C.BUILD, "apalache_card")
        shutil.rmtree(out, ignore_errors=True)
        try:
            p = subprocess.run(["apalache-mc", "check", "--init=Init", "--next=Next", "--inv=Inv", "--length=0", "--out-dir=" + out,
                                "CardNFUnbounded.tla"], cwd=os.path.join(C.SPEC, "apalache"), stdout=subprocess.PIPE, stderr=subprocess.STDOUT,
                               text=True, timeout=600)
            res = "NoError" if "The outcome is: NoError" in p.stdout else "FAILED"
        except Exception as e:
            res = "not run: %s" % type(e).__name__
        shutil.rmtree(out, ignore_errors=True)
        extra["apalache_unbounded_CardNF"] = res
        if res == "FAILED":
            raise C.MachineryError("Apalache: the normal-form rules of the model do not yield a normal form for all integers\n" + p.stdout[-2000:])
    return {"extra": extra, "judge": [("JudgeCard.tla", "JudgeCard.cfg", files)],
            "tlc": tlc,
            "records": records,
            "explanation": "exhaustive grid: 3 cardinality kinds x every normal-form cardinality over -1..4/None x child counts 0..5 x every "
                           "assignment form (None, ints, pairs, lists, strings, floats, wrong-length tuples), set_*_cardinality, add/remove child, "
                           "save+load in XML/JSON/YAML; each transition replayed into a real Property/Section and judged by TLC (JudgeCard)",
            "assumptions": ["bounds -1..4 and counts 0..5 as in the property's quantifier"]}


def replay_record(rec, d):
    from . import card
    w = C.ObsWriter(os.path.join(d, "one"))
    pre = {"kind": rec["kind"], "card": rec["pre"]["card"], "count": rec["pre"]["count"]}
    recs = list(card.replay({"pre": pre, "op": rec["op"]}))
    for r in recs:
        w.write(r)
    w.close()
    return "JudgeCard.tla", "JudgeCard.cfg", w.files, recs
