"""C13: Section.merge on every pair of trees of the OdmlMergeGen model."""
from . import common as C
from . import world as W
odml = W.odml
from odml import dtypes

TEXT = {"none": None, "X": "Amplifier gain (dB)", "Xv": "amplifier   GAIN(dB)", "Y": "Something else"}     # Xv: other case, more / no whitespace
VALS = {"v12": [1, 2], "v23": [2, 3], "v45": [4, 5], "text": ["abc"], "empty": [], "float": [2.5, 3.0], "mixed": ["3", "x"], "v01": [0, 1],
        "f12": [1.0, 2.0]}           # f12: floats equal in value to the ints of v12          # v01: a falsy value the destination lacks


def norm(t):
    return "none" if t is None else "".join(str(t).lower().split())


def mkprop(spec):
    kw = dict(name=spec["name"], unit=None if spec["unit"] == "none" else spec["unit"],
              uncertainty=None if spec["uncertainty"] == "none" else float(spec["uncertainty"]),
              definition=TEXT[spec["definition"]], reference=TEXT[spec["reference"]], value_origin=TEXT[spec["value_origin"]])
    try:
        return odml.Property(dtype=spec["dtype"], values=list(VALS[spec["vals"]]), **kw)
    except ValueError:
        return odml.Property(values=list(VALS[spec["vals"]]), **kw)     # dtype inferred from the values


def mksec(spec):
    return odml.Section(name=spec["name"], type=spec["type"], definition=TEXT[spec["definition"]], reference=TEXT[spec["reference"]])


def build(g):
    objs = {}
    for side in ("D", "S"):
        root = mksec(g[side])
        objs[side] = root
        for p in ("pa", "pb"):
            if g[side + p]["present"]:
                objs[side + p] = mkprop(g[side + p])
                root.append(objs[side + p])
                if side == "D" and p == "pb" and len(objs[side + p].values):
                    # a values cardinality the merge will exceed (a cardinality is never enforced)
                    objs[side + p].val_cardinality = (None, len(objs[side + p].values))
        if g[side + "s"]["present"]:
            sub = mksec(g[side + "s"])
            objs[side + "s"] = sub
            root.append(sub)
            if g[side + "spa"]["present"]:
                objs[side + "spa"] = mkprop(g[side + "spa"])
                sub.append(objs[side + "spa"])
    return objs


def snap(objs, idtok):
    st, objs2 = W.project_full(objs, idtok)
    for h, o in objs2.items():
        if st["kind"][h] in ("sec", "prop"):
            st["attrs"][h]["definition_n"] = norm(o.definition)
            st["attrs"][h]["reference_n"] = norm(o.reference)
        if st["kind"][h] == "prop":
            st["attrs"][h]["value_origin_n"] = norm(o.value_origin)
    return st, objs2


def conv_table(objs, st):
    """for every source Property: its values converted to each dtype a destination Property has"""
    dts = {}
    for h, o in objs.items():
        if st["kind"][h] == "prop":
            dts[st["attrs"][h]["dtype"]] = o.dtype
    conv = {}
    for h, o in objs.items():
        if st["kind"][h] != "prop":
            conv[h] = {}
            continue
        conv[h] = {}
        for tok, d in dts.items():
            out = []
            for v in o.values:
                try:
                    if d in ("string", "text", "url", "person") and isinstance(v, (int, float)) and not isinstance(v, bool):
                        cv = str(v)               # the text of a number, computed here: it may not depend on what was converted before
                    else:
                        cv = dtypes.get(v, d) if d is not None else v
                    out.append({"t": "list", "e": [W._s(x) for x in cv]} if isinstance(cv, list) else {"t": type(cv).__name__, "e": [W._s(cv)]})
                except Exception:
                    out.append({"t": "!unconvertible", "e": []})
            conv[h][tok] = out
    return conv


def replay(g):
    for strict in (True, False):
        objs = build(g)
        idtok = W.IdTok()
        pre, objs = snap(objs, idtok)
        conv = conv_table(objs, pre)
        out, exc = "ok", "none"
        try:
            objs["D"].merge(objs["S"], strict=strict)
        except Exception as e:
            out, exc = "raised", type(e).__name__
        post, objs = snap(objs, idtok)
        yield {"fam": "merge", "src": "model", "g": g, "dst": "D", "src_root": "S", "strict": strict, "out": out, "exc": exc,
               "pre": pre, "post": post, "conv": conv, "round": 1}
        if out != "ok":
            continue
        # a second merge after the source has grown below its root and a Property of the destination was renamed
        # (history of two merges with edits in between)
        try:
            grow(objs)
            for where in [objs["D"]] + list(objs["D"].sections):
                if len(where.properties):
                    where.properties[0].name = "was-" + where.properties[0].name
        except Exception:
            continue
        pre, objs = snap(objs, idtok)
        conv = conv_table(objs, pre)
        out, exc = "ok", "none"
        try:
            objs["D"].merge(objs["S"], strict=strict)
        except Exception as e:
            out, exc = "raised", type(e).__name__
        post, objs = snap(objs, idtok)
        yield {"fam": "merge", "src": "model", "g": g, "dst": "D", "src_root": "S", "strict": strict, "out": out, "exc": exc,
               "pre": pre, "post": post, "conv": conv, "round": 2}


def grow(objs):
    """the source gains a value, a Property and a sub-Section inside its sub-Section (or at its root if it has none)"""
    src = objs["S"]
    where = src.sections[0] if len(src.sections) else src
    n = len(objs)
    for p in where.properties:
        if p.dtype == "int":
            p.append(900 + n)
            break
    objs["g1"] = odml.Property(name="grown", values=[7], parent=where)
    objs["g2"] = odml.Section(name="grownsec", type="t", parent=where)
    objs["g3"] = odml.Property(name="deep", values=["x"], parent=objs["g2"])
