"""C16: every file of the OdmlReaderGen model (valid file + planted defects / corruptions) read by the
XML reader (strict / lenient, string / file) and by the JSON / YAML dictionary reader."""
import os, io, json, tempfile, shutil
import yaml
from lxml import etree as ET
from . import common as C
from . import world as W
odml = W.odml
from odml.tools.xmlparser import XMLReader
from odml.tools.odmlparser import ODMLReader
from odml.tools.dict_parser import DictReader
from odml.tools.parser_utils import ParserException, InvalidVersionException

TREE = {"s1": "d1", "s2": "d1", "s3": "s1", "p1": "s1", "p2": "s1", "p3": "s2", "p4": "s3"}
NAME = {"s1": "a", "s2": "b", "s3": "c", "p1": "a", "p2": "b", "p3": "a", "p4": "a"}
ORDER = ["s1", "s2", "s3", "p1", "p2", "p3", "p4"]
UUIDS = {h: "00000000-0000-4000-8000-00000000000%d" % i for i, h in enumerate(["d1"] + ORDER)}


def xml_doc(g):
    root = ET.Element("odML", version="1.1")
    d = g["d1"]
    ET.SubElement(root, "id").text = "nonsense-id" if d == "badid" else "5" if d == "numid" else UUIDS["d1"]
    ET.SubElement(root, "author").text = "me"
    ET.SubElement(root, "date").text = "not-a-date" if d == "baddate" else "2020-01-02"
    if d == "unknown-child":
        ET.SubElement(root, "foo").text = "bar"
    if d == "attr":
        root.set("foo", "1")
    if d == "prop-at-root":
        pr = ET.SubElement(root, "property")
        ET.SubElement(pr, "name").text = "rootprop"
        ET.SubElement(pr, "value").text = "1"
    el = {"d1": root}
    for h in ORDER:
        df = g[h]
        par = el[TREE[h]]
        if h.startswith("s"):
            e = ET.SubElement(par, "Section" if df == "case-tag" else "section")
            if df == "text-in-element":
                e.text = "stray text"
            if df not in ("noname", "noname-dupchild"):
                n = ET.SubElement(e, "Name" if df == "case-child" else "name")
                n.text = "" if df == "emptyname" else ("a" if (df == "dupname" and h == "s2") else NAME[h])
            if df == "repeat-name":
                ET.SubElement(e, "name").text = NAME[h] + "again"
            if df != "notype":
                ET.SubElement(e, "type").text = "" if df == "emptytype" else "t"
            ET.SubElement(e, "id").text = "nonsense-id" if df == "badid" else "7.5" if df == "numid" else UUIDS[h]
            ET.SubElement(e, "definition").text = "coverage in % of the area (100%d %s)"      # text with format characters
            if df == "unknown-child":
                ET.SubElement(e, "foo").text = "bar"
            if df == "attr":
                e.set("foo", "1")
            if df == "badcard":
                ET.SubElement(e, "sec_cardinality").text = "(x, y)"
            if df == "wrong-nesting":
                ET.SubElement(e, "odML").text = "nested root"
            el[h] = e
        else:
            e = ET.SubElement(par, "Property" if df == "case-tag" else "property")
            if df not in ("noname", "noname-badvalue"):
                ET.SubElement(e, "name").text = "a" if ((df == "dupname" and h == "p2") or g[TREE[h]] == "noname-dupchild") else NAME[h]
            ET.SubElement(e, "id").text = "nonsense-id" if df == "badid" else "7.5" if df == "numid" else UUIDS[h]
            ET.SubElement(e, "type").text = "nonsense-type" if df == "baddtype" else "int"
            ET.SubElement(e, "unit").text = "%"
            if h == "p2":
                # valid content: a dependency on the sibling Property a (an int) with a text as dependency value
                ET.SubElement(e, "dependency").text = "a"
                ET.SubElement(e, "dependencyvalue").text = "as many as possible"
            ET.SubElement(e, "value").text = "abc" if df in ("badvalue", "noname-badvalue") else ("" if df == "emptyvalue" else "[ \n\t ]" if df == "blanklist" else "[ 1 ,   2 ]" if df == "spacedlist" else "[1,2]")
            if df == "repeat-value":
                ET.SubElement(e, "value").text = "[3]"
            if df == "unknown-child":
                ET.SubElement(e, "foo").text = "bar"
            if df == "attr":
                e.set("foo", "1")
            if df == "badcard":
                ET.SubElement(e, "val_cardinality").text = "(x, y)"
            if df == "wrong-nesting":
                s = ET.SubElement(e, "section")
                ET.SubElement(s, "name").text = "inprop"
                ET.SubElement(s, "type").text = "t"
            el[h] = e
    text = ET.tostring(root, encoding="unicode", pretty_print=True)
    f = g["file"]
    if f == "truncate":
        text = text[:int(len(text) * 0.6)]
    elif f == "dropclose":
        i = text.rfind("</section>")
        text = text[:i] + text[i + len("</section>"):]
    elif f == "garbage":
        text = "this is {not xml at all <<<"
    elif f == "wrongroot":
        text = text.replace("<odML ", "<otherML ", 1).replace("</odML>", "</otherML>")
    elif f == "caseroot":
        text = text.replace("<odML ", "<odml ", 1).replace("</odML>", "</odml>")       # the root element is spelled odML
    elif f == "wrongversion":
        text = text.replace('version="1.1"', 'version="1"', 1)
    elif f == "noversion":
        text = text.replace(' version="1.1"', "", 1)
    elif f == "empty":
        text = ""
    return text


def dict_doc(g):
    d = g["d1"]
    doc = {"id": "nonsense-id" if d == "badid" else 5 if d == "numid" else UUIDS["d1"], "author": "me", "date": "not-a-date" if d == "baddate" else "2020-01-02"}
    if d in ("unknown-child", "attr"):
        doc["foo"] = "bar"
    def prop(h):
        df = g[h]
        e = {}
        if df not in ("noname", "noname-badvalue"):
            e["name"] = "a" if ((df == "dupname" and h == "p2") or g[TREE[h]] == "noname-dupchild") else NAME[h]
        e["id"] = "nonsense-id" if df == "badid" else 7.5 if df == "numid" else UUIDS[h]
        e["type"] = "nonsense-type" if df == "baddtype" else "int"
        e["unit"] = "%"
        if h == "p2":
            e["dependency"] = "a"
            e["dependencyvalue"] = "as many as possible"
        e["value"] = ["abc"] if df in ("badvalue", "noname-badvalue") else ([] if df == "emptyvalue" else [" \n\t "] if df == "blanklist" else [1, 2])
        if df in ("unknown-child", "attr", "case-tag", "repeat-value"):
            e["foo"] = "bar"
        if df == "badcard":
            e["val_cardinality"] = ["x", "y"]
        if df == "wrong-nesting":
            e["sections"] = [{"name": "inprop", "type": "t"}]
        return e
    def sec(h):
        df = g[h]
        e = {}
        if df not in ("noname", "noname-dupchild"):
            e["Name" if df == "case-child" else "name"] = "" if df == "emptyname" else ("a" if (df == "dupname" and h == "s2") else NAME[h])
        if df != "notype":
            e["type"] = "" if df == "emptytype" else "t"
        e["definition"] = "coverage in % of the area (100%d %s)"
        e["id"] = "nonsense-id" if df == "badid" else 7.5 if df == "numid" else UUIDS[h]
        if df in ("unknown-child", "attr", "case-tag", "repeat-name", "text-in-element"):
            e["foo"] = "bar"
        if df == "badcard":
            e["sec_cardinality"] = ["x", "y"]
        props = [prop(x) for x in ORDER if x.startswith("p") and TREE[x] == h]
        subs = [sec(x) for x in ORDER if x.startswith("s") and TREE[x] == h]
        e["properties"] = props
        e["sections"] = {"oops": "a dict where a list belongs"} if df == "wrong-nesting" else subs
        return e
    doc["sections"] = [sec(x) for x in ORDER if x.startswith("s") and TREE[x] == "d1"]
    if d == "prop-at-root":
        doc["properties"] = [{"name": "rootprop", "value": [1]}]
    out = {"Document": doc, "odml-version": "1.1"}
    f = g["file"]
    if f == "wrongroot":
        out = {"Dokument": doc, "odml-version": "1.1"}
    elif f == "caseroot":
        out = {"document": doc, "odml-version": "1.1"}
    elif f == "wrongversion":
        out["odml-version"] = "1"
    elif f == "noversion":
        del out["odml-version"]
    return out


def find(doc):
    """which of the seven objects are in the returned document (looked up by name)"""
    found = {h: False for h in ORDER}
    def child(c, name, props=False):
        for x in (c.properties if props else c.sections):
            if x.name == name:
                return x
        return None
    try:
        s1 = child(doc, "a"); s2 = child(doc, "b")
        found["s1"], found["s2"] = s1 is not None, s2 is not None
        if s1 is not None:
            s3 = child(s1, "c")
            found["s3"] = s3 is not None
            found["p1"] = child(s1, "a", True) is not None
            found["p2"] = child(s1, "b", True) is not None
            if s3 is not None:
                found["p4"] = child(s3, "a", True) is not None
        if s2 is not None:
            found["p3"] = child(s2, "a", True) is not None
    except Exception:
        pass
    return found


def classify(fn):
    try:
        res = W.with_budget(fn, steps=3000000)
        if res is W.HANG:
            return "hang", None
        return ("Document", res) if isinstance(res, odml.doc.BaseDocument) else ("other:returned-" + type(res).__name__, None)
    except InvalidVersionException:
        return "InvalidVersionException", None
    except ParserException:
        return "ParserException", None
    except Exception as e:
        return "other:" + type(e).__name__, None


EMPTYW = {"kind": {}, "kids": {}, "plist": {}, "par": {}, "name": {}}


def replay(g):
    d = tempfile.mkdtemp(prefix="rd", dir=os.environ.get("TMPDIR"))
    try:
        xml = xml_doc(g)
        wellformed_text = g["file"] not in ("truncate", "dropclose", "garbage", "empty")
        for mode in ("strict", "lenient"):
            for entry in ("string", "file"):
                rd = XMLReader(ignore_errors=(mode == "lenient"), show_warnings=False)
                if entry == "string":
                    outcome, doc = classify(lambda: rd.from_string(xml))
                else:
                    path = os.path.join(d, "in.xml")
                    open(path, "w").write(xml)
                    outcome, doc = classify(lambda: rd.from_file(path))
                w = W.project({"r1": doc}, docof=True)[0] if doc is not None else EMPTYW
                yield {"fam": "reader", "src": "model", "g": g, "fmt": "XML", "mode": mode, "entry": entry, "outcome": outcome,
                       "warnings": len(rd.warnings), "found": find(doc) if doc is not None else {h: False for h in ORDER}, "w": w}
        # the same text in other lexical dress (no defect is added by any of them): with an XML declaration, with a processing
        # instruction / a comment / a reference to an entity declared in the DOCTYPE between the elements; and through the
        # high-level entry points, which also validate what they have read
        if wellformed_text:
            import re as _re
            def between(ins):
                return _re.sub(r"(</name>)", r"\1" + ins, xml, count=3).replace("<section>", ins + "<section>", 1)
            dress = {"decl": '<?xml version="1.0" encoding="UTF-8"?>\n<?xml-stylesheet type="text/xsl" href="odmlDocument.xsl"?>\n' + xml,
                     "pi": between("<?editor fold?>"), "comment": between("<!-- note -->"),
                     "entity": '<!DOCTYPE odML [<!ENTITY sep " ">]>\n' + between("&sep;")}
            for name, text in sorted(dress.items()):
                for mode in ("strict", "lenient"):
                    rd = XMLReader(ignore_errors=(mode == "lenient"), show_warnings=False)
                    outcome, doc = classify(lambda: rd.from_string(text))
                    w = W.project({"r1": doc}, docof=True)[0] if doc is not None else EMPTYW
                    yield {"fam": "reader", "src": "model", "g": g, "fmt": "XML", "mode": mode, "entry": "string:" + name, "outcome": outcome,
                           "warnings": len(rd.warnings), "found": find(doc) if doc is not None else {h: False for h in ORDER}, "w": w}
            path = os.path.join(d, "in.xml")
            open(path, "w").write(xml)
            for name, fn in (("ODMLReader.from_string", lambda: ODMLReader("XML").from_string(xml)), ("ODMLReader.from_file", lambda: ODMLReader("XML").from_file(path)),
                             ("odml.load", lambda: odml.load(path, "XML"))):
                with C.quiet():
                    outcome, doc = classify(fn)
                w = W.project({"r1": doc}, docof=True)[0] if doc is not None else EMPTYW
                yield {"fam": "reader", "src": "model", "g": g, "fmt": "XML", "mode": "strict", "entry": name, "outcome": outcome,
                       "warnings": 0, "found": find(doc) if doc is not None else {h: False for h in ORDER}, "w": w}
        if wellformed_text:
            dd = dict_doc(g)
            for fmt in ("JSON", "YAML"):
                text = json.dumps(dd) if fmt == "JSON" else yaml.safe_dump(dd)
                for mode in ("strict", "lenient"):
                    r = DictReader(show_warnings=False, ignore_errors=(mode == "lenient"))
                    outcome, doc = classify(lambda: r.to_odml(json.loads(text) if fmt == "JSON" else yaml.safe_load(text)))
                    nw = len(r.warnings)
                    w = W.project({"r1": doc}, docof=True)[0] if doc is not None else EMPTYW
                    yield {"fam": "reader", "src": "model", "g": g, "fmt": fmt, "mode": mode, "entry": "string", "outcome": outcome,
                           "warnings": nw, "found": find(doc) if doc is not None else {h: False for h in ORDER}, "w": w}
                if fmt == "YAML":
                    # the same file as the Python 2 releases of the library wrote it: texts tagged !!python/unicode; read in a
                    # fresh process state (the constructor of the tag is registered on a class of the yaml package)
                    import re as _re
                    tagged = _re.sub(r"^(\s*(?:- )?(?:name|type|author|unit): )([A-Za-z%][^\n]*)$", r"\1!!python/unicode '\2'", text, flags=_re.M)
                    yaml.SafeLoader.yaml_constructors = {k: v for k, v in yaml.SafeLoader.yaml_constructors.items() if k != "tag:yaml.org,2002:python/unicode"}
                    for ename, fn in (("ODMLReader.from_string:py2tags", lambda: ODMLReader("YAML", show_warnings=False).from_string(tagged)),):
                        with C.quiet():
                            outcome, doc = classify(fn)
                        w = W.project({"r1": doc}, docof=True)[0] if doc is not None else EMPTYW
                        yield {"fam": "reader", "src": "model", "g": g, "fmt": fmt, "mode": "strict", "entry": ename, "outcome": outcome,
                               "warnings": 0, "found": find(doc) if doc is not None else {h: False for h in ORDER}, "w": w}
                # the high-level reader (strict; it validates what it has read)
                with C.quiet():
                    outcome, doc = classify(lambda: ODMLReader(fmt).from_string(text))
                w = W.project({"r1": doc}, docof=True)[0] if doc is not None else EMPTYW
                yield {"fam": "reader", "src": "model", "g": g, "fmt": fmt, "mode": "strict", "entry": "ODMLReader.from_string", "outcome": outcome,
                       "warnings": 0, "found": find(doc) if doc is not None else {h: False for h in ORDER}, "w": w}
    finally:
        shutil.rmtree(d, ignore_errors=True)
