"""Common machinery: running TLC as generator / judge, verdict handling, evidence.

The Python side is deliberately dumb: it never decides a property.  Verdicts are the
lines a TLC judge module prints when a contract predicate evaluates to FALSE on an
observation of the real library.
"""
import os, sys, json, subprocess, time, shutil, hashlib, re, signal
import multiprocessing as mp

VERIF = os.path.dirname(os.path.dirname(os.path.abspath(__file__)))
SPEC = os.path.join(VERIF, "spec")
BUILD = os.path.join(VERIF, "build")
EVID = os.path.join(VERIF, "evidence")
REPLAYS = os.path.join(VERIF, "replays")
REPO = os.environ.get("ODML_REPO", "/repo")
TLC_CP = "/opt/veriftools/tla/tla2tools.jar:/opt/veriftools/tla/CommunityModules-deps.jar"
NCPU = min(16, os.cpu_count() or 4)

TRUSTED_BASE = [
    "TLC 1.8.0 (tla2tools) and the CommunityModules Json/IOUtils Java overrides",
    "harness construction (build) and projection (project) code: builds real odml objects for an abstract state and reads them back through the public API",
    "the token table mapping abstract tokens to concrete Python values (harness/tokens.py)",
]


class MachineryError(Exception):
    """Something in the verification machinery itself failed (exit 2, never a verdict)."""


def seed():
    try:
        return int(os.environ.get("VERIF_SEED", "0"))
    except ValueError:
        return 0


def import_odml():
    """Import odml from the repository working tree (never from a snapshot)."""
    if REPO not in sys.path:
        sys.path.insert(0, REPO)
    import odml
    if not os.path.abspath(odml.__file__).startswith(os.path.abspath(REPO) + os.sep):
        raise MachineryError("odml imported from %s, not from %s" % (odml.__file__, REPO))
    return odml


def fresh_dir(path):
    shutil.rmtree(path, ignore_errors=True)
    os.makedirs(path, exist_ok=True)
    return path


def tlc_cmd(module, cfg, workers, metadir, xmx="4g", extra=()):
    return ["java", "-XX:+UseParallelGC", "-Xss32m", "-Xmx" + xmx, "-cp", TLC_CP, "tlc2.TLC",
            "-workers", str(workers), "-metadir", metadir, "-noGenerateSpecTE",
            "-config", cfg] + list(extra) + [module]


_STATS = re.compile(r"(\d+) states generated, (\d+) distinct states found, (\d+) states left")


class TlcGen(object):
    """Run TLC on a generating configuration; data lines (JSON strings printed from an
    ACTION_CONSTRAINT / invariant) are handed out in chunks, everything else is kept as log."""

    def __init__(self, module, cfg, tag, workers=8, env=None, extra=(), timeout=3600, xmx="8g"):
        self.module, self.cfg, self.tag = module, cfg, tag
        self.metadir = fresh_dir(os.path.join(BUILD, "meta_" + tag))
        self.cmd = tlc_cmd(module, cfg, workers, self.metadir, xmx=xmx, extra=extra)
        e = dict(os.environ)
        e.update(env or {})
        self.env = e
        self.timeout = timeout
        self.log = []
        self.stats = {}
        self.n_lines = 0
        self.t0 = time.time()

    def chunks(self, n=1000):
        p = subprocess.Popen(self.cmd, cwd=SPEC, env=self.env, stdout=subprocess.PIPE,
                             stderr=subprocess.STDOUT, text=True, bufsize=1 << 20)
        buf = []
        try:
            for line in p.stdout:
                if line.startswith('"{') or line.startswith('"['):
                    buf.append(line)
                    self.n_lines += 1
                    if len(buf) >= n:
                        yield buf
                        buf = []
                else:
                    if len(self.log) < 2000:
                        self.log.append(line.rstrip("\n"))
                    m = _STATS.search(line)
                    if m:
                        self.stats = {"generated": int(m.group(1)), "distinct": int(m.group(2)),
                                      "queue": int(m.group(3))}
                if time.time() - self.t0 > self.timeout:
                    p.kill()
                    raise MachineryError("TLC generator %s timed out" % self.tag)
            if buf:
                yield buf
        finally:
            if p.poll() is None:
                p.kill()
            p.wait()
        self.rc = p.returncode
        self.wall = time.time() - self.t0
        errs = [l for l in self.log if l.startswith("Error:") or "is violated" in l]
        if errs or self.rc != 0 or not self.stats:
            raise MachineryError("TLC generator %s failed (rc=%s): %s\n%s" % (
                self.tag, self.rc, errs[:3], "\n".join(self.log[-25:])))
        shutil.rmtree(self.metadir, ignore_errors=True)

    def all_lines(self):
        out = []
        for c in self.chunks(5000):
            out.extend(c)
        return out

    def describe(self):
        return " ".join(self.cmd[self.cmd.index("tlc2.TLC"):])


def thin(chunks, one_in):
    """keep one case in `one_in`, chosen by a hash of the emitted line and the seed (TLC's emission order varies)"""
    import zlib
    k = seed()
    for ch in chunks:
        out = [l for l in ch if (zlib.crc32(l.encode() if isinstance(l, str) else repr(l).encode()) + k) % one_in == 0]
        if out:
            yield out


def decode(line):
    """A data line is a TLA+ string literal holding JSON."""
    return json.loads(json.loads(line))


def run_tlc_check(module, cfg, tag, workers=8, env=None, extra=(), timeout=3600, xmx="8g"):
    """Plain model-checking run (no emission).  Returns stats dict; raises on violation."""
    g = TlcGen(module, cfg, tag, workers=workers, env=env, extra=extra, timeout=timeout, xmx=xmx)
    lines = g.all_lines()
    st = dict(g.stats)
    st["wall_s"] = round(g.wall, 2)
    st["cmd"] = g.describe()
    st["lines"] = lines
    return st


# --------------------------------------------------------------------------------------
# judging

def _judge_one(args):
    module, cfg, obs_file, idx, env_extra = args
    metadir = fresh_dir(os.path.join(BUILD, "meta_judge_%s_%d" % (os.path.basename(obs_file), idx)))
    env = dict(os.environ)
    env["OBS_FILE"] = obs_file
    env.update(env_extra or {})
    cmd = tlc_cmd(module, cfg, 1, metadir, xmx="3g")
    t0 = time.time()
    p = subprocess.run(cmd, cwd=SPEC, env=env, stdout=subprocess.PIPE, stderr=subprocess.STDOUT, text=True)
    verdicts, log = [], []
    for line in p.stdout.splitlines():
        if line.startswith('"['):
            try:
                verdicts.append(json.loads(json.loads(line)))
            except Exception:
                log.append(line)
        else:
            log.append(line)
    ok = any("Model checking completed. No error has been found" in l for l in log) and p.returncode == 0
    incomplete = [v for v in verdicts if v and v[0] == "INCOMPLETE"]
    shutil.rmtree(metadir, ignore_errors=True)
    return {"obs": obs_file, "ok": ok and not incomplete, "verdicts": [v for v in verdicts if v[0] != "INCOMPLETE"],
            "log": log[-30:], "wall": time.time() - t0, "cmd": " ".join(cmd[cmd.index("tlc2.TLC"):])}


def run_judges(module, cfg, obs_files, env=None, parallel=None):
    """Run one single-worker TLC judge per observation file, several in parallel."""
    obs_files = [f for f in obs_files if os.path.getsize(f) > 0]
    if not obs_files:
        return [], {"runs": 0, "wall_s": 0.0, "cmd": ""}
    parallel = parallel or max(1, min(len(obs_files), NCPU - 2))
    t0 = time.time()
    jobs = [(module, cfg, f, i, env) for i, f in enumerate(obs_files)]
    if len(jobs) == 1:
        res = [_judge_one(jobs[0])]
    else:
        with mp.get_context("fork").Pool(parallel) as pool:
            res = pool.map(_judge_one, jobs, chunksize=1)
    verdicts = []
    for r in res:
        if not r["ok"]:
            raise MachineryError("TLC judge failed on %s:\n%s" % (r["obs"], "\n".join(r["log"])))
        verdicts.extend(r["verdicts"])
    return verdicts, {"runs": len(res), "wall_s": round(time.time() - t0, 2), "cmd": res[0]["cmd"]}


class ObsWriter(object):
    """Sharded NDJSON writer; record key k = '<shard>:<line>'."""

    def __init__(self, prefix, shard_size=15000):
        self.prefix, self.shard_size = prefix, shard_size
        self.files, self.n, self.f, self.in_shard = [], 0, None, 0

    def _roll(self):
        if self.f:
            self.f.close()
        path = "%s_%03d.ndjson" % (self.prefix, len(self.files))
        self.files.append(path)
        self.f = open(path, "w")
        self.in_shard = 0

    def write(self, rec):
        if self.f is None or self.in_shard >= self.shard_size:
            self._roll()
        self.in_shard += 1
        self.n += 1
        rec["k"] = "%s:%d" % (os.path.basename(self.files[-1]), self.in_shard)
        self.f.write(json.dumps(rec, separators=(",", ":")) + "\n")
        return rec["k"]

    def close(self):
        if self.f:
            self.f.close()
            self.f = None


def fetch_record(files, k):
    base, line = k.rsplit(":", 1)
    for f in files:
        if os.path.basename(f) == base:
            with open(f) as fh:
                for i, l in enumerate(fh, 1):
                    if i == int(line):
                        return json.loads(l)
    return None


# --------------------------------------------------------------------------------------
# verdicts, known findings, replay files, evidence

def load_known():
    path = os.path.join(VERIF, "known_findings.json")
    if not os.path.exists(path):
        return {"findings": [], "fixed": []}
    return json.load(open(path))


def sig_key(sig):
    return json.dumps(sig, separators=(",", ":"))


def settle(pid, verdicts, obs_files, tier, extra_samples=None):
    """Turn judge verdict lines for property `pid` into KNOWN-FINDING / VIOLATION output.
    Returns (n_violations, n_known, summary dict)."""
    known = [k for k in load_known()["findings"] if k["property"] == pid]

    def kf_match(clause, sig):
        """signature elements of a known finding: exact value, "*" or a list of alternatives"""
        for kf in known:
            ks = kf["signature"]
            if kf["clause"] != clause or len(ks) != len(sig):
                continue
            def m(a, b):
                if a == "*" or a == b:
                    return True
                if isinstance(a, dict) and "subset_of" in a:            # b (a list standing for a set) within the given set
                    return isinstance(b, list) and set(map(json.dumps, b)) <= set(map(json.dumps, a["subset_of"]))
                return isinstance(a, list) and not isinstance(b, list) and b in a
            if all(m(a, b) for a, b in zip(ks, sig)):
                return kf
        return None
    groups, diverg, other = {}, {}, {}
    for v in verdicts:
        tag, prop, clause, k, sig = v[0], v[1], v[2], v[3], v[4]
        if tag == "DIVERGENCE":
            diverg.setdefault(sig_key(sig), []).append(k)
        elif tag == "VIOL":
            if prop == pid or prop == "*":      # "*": a library call that did not return (harness/par.py)
                groups.setdefault((clause, sig_key(sig)), []).append(k)
            else:
                other[prop] = other.get(prop, 0) + 1
    n_viol, n_known, lines, kf_lines = 0, 0, [], {}
    summary = {"known_findings_hit": {}, "violations": {}, "divergences": {k: len(v) for k, v in diverg.items()},
               "verdicts_for_other_properties": other}
    for (clause, sk), ks in sorted(groups.items()):
        kf = kf_match(clause, json.loads(sk))
        if kf is not None:
            n_known += len(ks)
            key = "%s %s" % (clause, kf["id"])
            summary["known_findings_hit"][key] = summary["known_findings_hit"].get(key, 0) + len(ks)
            kf_lines[key] = kf
        else:
            n_viol += len(ks)
            rec = fetch_record(obs_files, ks[0]) if obs_files else None
            rdir = os.path.join(REPLAYS, pid)
            os.makedirs(rdir, exist_ok=True)
            h = hashlib.sha1(("%s|%s|%s" % (pid, clause, sk)).encode()).hexdigest()[:12]
            rpath = os.path.join(rdir, "%s_%s.json" % (clause, h))
            json.dump({"property": pid, "clause": clause, "signature": json.loads(sk), "cases": len(ks),
                       "tier": tier, "seed": seed(), "record": rec}, open(rpath, "w"), indent=1)
            print("VIOLATION property=%s replay=%s" % (pid, rpath))
            print("  clause=%s signature=%s cases=%d first=%s" % (clause, sk, len(ks), ks[0]))
            summary["violations"]["%s %s" % (clause, sk)] = len(ks)
    for key, kf in sorted(kf_lines.items()):
        print("KNOWN-FINDING: property=%s %s [%s, %d cases] %s" % (pid, kf["id"], kf["clause"], summary["known_findings_hit"][key], kf["what"]))
    return n_viol, n_known, summary


def write_evidence(pid, tier, level, coverage, assumptions, wall_s, violations):
    os.makedirs(EVID, exist_ok=True)
    if not pid.startswith("C"):
        # checks beyond the listed properties (X..): their evidence is kept out of /verif/evidence
        os.makedirs(BUILD, exist_ok=True)
        json.dump({"property_id": pid, "tier": tier, "seed": seed(), "level": level, "coverage": coverage, "assumptions": assumptions,
                   "wall_s": round(wall_s, 2), "violations": int(violations)}, open(os.path.join(BUILD, "evidence_%s.json" % pid), "w"), indent=1, default=str)
        return
    ev = {"property_id": pid, "tier": tier, "seed": seed(), "level": level, "coverage": coverage,
          "assumptions": assumptions, "wall_s": round(wall_s, 2), "violations": int(violations)}
    tmp = os.path.join(EVID, pid + ".json.tmp")
    json.dump(ev, open(tmp, "w"), indent=1, default=str)
    os.replace(tmp, os.path.join(EVID, pid + ".json"))


def silence_stdout():
    """odml prints warnings to stdout; workers must not pollute the check's output."""
    devnull = os.open(os.devnull, os.O_WRONLY)
    os.dup2(devnull, 1)
    os.dup2(devnull, 2)
    import warnings
    warnings.simplefilter("ignore")


class quiet(object):
    """Context manager silencing Python-level prints of the library in the main process."""
    def __enter__(self):
        import io
        self._o, self._e = sys.stdout, sys.stderr
        sys.stdout, sys.stderr = io.StringIO(), io.StringIO()
    def __exit__(self, *a):
        sys.stdout, sys.stderr = self._o, self._e
        return False
