"""Composition histories (H-binding at document level): seeded sequences of whole-document operations on ONE
evolving, decorated document - clone and attach, merge, move, rename, value edits, create / remove, link +
finalize, clean, save and continue with the loaded document - each step observed twice:
  stream "tree":    structural projection before / after, judged by JudgeTree (C03 WF, C04 names, C06 Atomic)
  stream "formats": every save/load step as a round-trip record, judged by JudgeFormats (C01 / C02)
The operations are applied to the result of the previous ones; nothing is rebuilt in between."""
import random, json
from . import common as C
from . import world as W
from . import docs as D
odml = W.odml
from odml.tools.odmlparser import ODMLWriter, ODMLReader
from odml.tools.xmlparser import XMLReader


def history_cases(n, depth, rng):
    for i in range(n):
        yield [{"hist": i, "seed": rng.randrange(1 << 30), "depth": depth}]


def base_world(rng):
    secs = ["s%d" % i for i in range(1, 6)]
    props = ["p%d" % i for i in range(1, 4)]
    st = {"kind": {"d1": "doc"}, "kids": {"d1": []}, "plist": {"d1": []}, "par": {"d1": "none"}, "name": {"d1": "-"}, "type": {"d1": "-"}}
    for h in secs:
        c = rng.choice(["d1"] + [x for x in secs if x in st["kind"]])
        names = [st["name"][y] for y in st["kids"][c]]
        n = rng.choice([x for x in ("a", "ab", "b", "B", "c") if x not in names])
        st["kind"][h] = "sec"; st["kids"][h] = []; st["plist"][h] = []; st["par"][h] = c; st["name"][h] = n; st["type"][h] = "t"
        st["kids"][c].append(h)
    for h in props:
        c = rng.choice(secs)
        names = [st["name"][y] for y in st["plist"][c]]
        n = rng.choice([x for x in ("a", "ab", "b", "c") if x not in names])
        st["kind"][h] = "prop"; st["kids"][h] = []; st["plist"][h] = []; st["par"][h] = c; st["name"][h] = n; st["type"][h] = "-"
        st["plist"][c].append(h)
    return st


def all_objs(doc):
    secs = list(doc.itersections())
    props = [p for s in secs for p in s.properties]
    return secs, props


def below(a, b):
    """b is a or lies below a"""
    cur = b
    while cur is not None and W.kind_of(cur) == "sec":
        if cur is a:
            return True
        cur = cur.parent
    return False


def do_op(doc, name, rng, tmp):
    """returns the objects the operation involves (for the projection) and a thunk"""
    secs, props = all_objs(doc)
    conts = [doc] + secs
    if name == "clone_attach" and secs:
        x, c = rng.choice(secs + props), rng.choice(conts)
        def f():
            y = x.clone(children=rng.random() < 0.8)
            tmp.append(y)
            c.append(y)
        return f
    if name == "merge" and len(secs) >= 2:
        a, b = rng.sample(secs, 2)
        if below(a, b) or below(b, a):
            return None
        return lambda: a.merge(b, strict=rng.random() < 0.3)
    if name == "move" and secs:
        x, c = rng.choice(secs + props), rng.choice(conts)
        how = rng.choice(["parent", "append", "insert"])
        if how == "parent":
            return lambda: setattr(x, "parent", c)
        if how == "append":
            return lambda: c.append(x)
        return lambda: c.insert(rng.randrange(3), x)
    if name == "rename" and secs:
        x = rng.choice(secs + props)
        sibs = [y.name for y in (x.parent.sections if W.kind_of(x) == "sec" else x.parent.properties)] if x.parent is not None else []
        new = rng.choice(sibs + ["fresh%d" % rng.randrange(50), None, ""])
        return lambda: setattr(x, "name", new)
    if name == "edit_prop" and props:
        p = rng.choice(props)
        how = rng.choice(["append", "unit", "definition", "values", "remove"])
        if how == "append":
            return lambda: p.append(p.values[0]) if p.values else None
        if how == "unit":
            return lambda: setattr(p, "unit", rng.choice(["mV", None, "%"]))
        if how == "definition":
            return lambda: setattr(p, "definition", rng.choice(D.TEXTS))
        if how == "values":
            return lambda: setattr(p, "values", p.values[:1])
        return lambda: p.remove(p.values[-1]) if p.values else None
    if name == "create" and secs:
        c = rng.choice(conts)
        if W.kind_of(c) == "doc" or rng.random() < 0.5:
            return lambda: c.create_section(rng.choice(["a", "b", "made%d" % rng.randrange(50)]), "t")
        return lambda: c.create_property(rng.choice(["a", "b", "made%d" % rng.randrange(50)]), values=rng.choice([[1, 2], ["x"], [1, "high"]]))
    if name == "remove" and secs:
        x = rng.choice(secs + props)
        c = x.parent if rng.random() < 0.8 else rng.choice(conts)
        return lambda: c.remove(x)
    if name == "link" and len(secs) >= 2:
        a, b = rng.sample(secs, 2)
        if below(a, b) or below(b, a) or a.link is not None or a.include is not None or b.is_merged or a.is_merged:
            return None
        path = b.get_path() if rng.random() < 0.5 else a.get_relative_path(b)
        def f():
            a._link = path            # stored only (as a loaded file has it); finalize resolves it
            if not links_ok(doc):
                a._link = None
        return f
    if name == "finalize":
        return doc.finalize if links_ok(doc) else None
    if name == "clean":
        return doc.clean
    return None


def links_ok(doc):
    """every link designates a Section that is neither the linking Section nor above / below it, no target is, contains or
    lies inside another linking Section (the shapes C12 quantifies over); anything else makes finalize meaningless"""
    secs = list(doc.itersections())
    linkers = [s for s in secs if s.link is not None]
    targets = []
    for s in linkers:
        try:
            tgt = s.get_section_by_path(s.link)
        except Exception:
            return False
        if tgt is None or below(tgt, s) or below(s, tgt):
            return False
        targets.append(tgt)
    for i, a in enumerate(linkers):
        for j, b in enumerate(linkers):
            if i != j and (below(a, b) or below(b, a)):
                return False
        for tg in targets:
            if below(a, tg) or below(tg, a):
                return False
    return True


def forgive_single_bracketed(exp, world):
    """the expected world with the values of every Property whose ONLY value is text that is bracketed or blank
    replaced by the loaded ones (classification aid for a known finding of C01, not a verdict); None if there is none"""
    import ast, json
    a, b = {}, {}
    def walk(st, x, path, out):
        out[path] = x
        for i, c in enumerate(st["kids"].get(x, [])):
            walk(st, c, path + "/s%d" % i, out)
        for i, c in enumerate(st["plist"].get(x, [])):
            walk(st, c, path + "/p%d" % i, out)
    walk(exp, "d1", "", a); walk(world, "r1", "", b)
    alt, hit = None, False
    for path, x in a.items():
        v = exp["vals"].get(x, [])
        if len(v) == 1 and v[0]["t"] == "str" and path in b:
            try:
                text = ast.literal_eval(v[0]["e"][0]).strip()
            except Exception:
                continue
            if text == "" or (text.startswith("[") and text.endswith("]")):
                if alt is None:
                    alt = json.loads(json.dumps(exp))
                alt["vals"][x] = world["vals"][b[path]]
                hit = True
    return alt if hit else None


OPS = ["clone_attach", "clone_attach", "merge", "move", "move", "rename", "edit_prop", "create", "remove", "link", "finalize", "clean",
       "saveload", "saveload"]


def replay_history(t):
    rng = random.Random(t["seed"])
    st0 = base_world(rng)
    objs = W.build(st0, mk=D.mk(rng.randrange(7), rng.randrange(97)))
    doc = objs["d1"]
    for s in doc.itersections():
        s.type = "t"                  # one type: merging same-named Sections of different types is a known finding of C13
        s._include = None
    kept = {"d1": doc}
    for i in range(t["depth"]):
        name = rng.choice(OPS)
        if name == "saveload":
            fmt = rng.choice(["XML", "JSON", "YAML"])
            try:
                doc.clean()
            except Exception:
                pass
            idtok = W.IdTok()
            pre, _ = W.project_full({"d1": doc}, idtok)
            rec = {"_stream": "formats", "fam": "formats", "src": "hist", "hist": t["hist"], "step": i, "t": "doc", "fmt": fmt, "entry": "history",
                   "mode": "strict" if fmt == "XML" else "lenient", "opt": "plain", "variant": 0, "out": "ok", "exc": "none", "x": "d1", "y": "r1",
                   "warnings": 0, "vocab": {"root": "odML", "version": "1.1", "pairs": []}, "dictkeys": [["root", "Document"], ["root", "odml-version"]]}
            rec["exp"] = D.unc_text(D.strip_world(pre)) if fmt == "XML" else D.unc_text(pre)
            loaded = None
            try:
                text = ODMLWriter(fmt).to_string(doc)
                if fmt == "XML":
                    rd = XMLReader(ignore_errors=False, show_warnings=False)
                    loaded = rd.from_string(text)
                    rec["warnings"] = len(rd.warnings)
                else:
                    loaded = ODMLReader(fmt, show_warnings=False).from_string(text)
                rec["world"] = D.unc_text(W.project_full({"r1": loaded}, idtok)[0])
                if fmt == "XML":
                    alt = forgive_single_bracketed(rec["exp"], rec["world"])
                    if alt is not None:
                        rec["exp_alt"] = alt
            except Exception as e:
                rec["out"], rec["exc"] = "raised", type(e).__name__
                rec["world"] = D.unc_text(W.project_full({"r1": odml.Document()}, idtok)[0])
            yield rec
            if loaded is not None:
                doc = loaded              # the history goes on with the loaded document
                kept = {"d1": doc}
            continue
        tmp = []
        f = do_op(doc, name, rng, tmp)
        if f is None:
            continue
        pre, kept = W.project(kept)
        out, exc = "ok", "none"
        try:
            f()
        except Exception as e:
            out, exc = "raised", type(e).__name__
        post, kept = W.project(kept)
        yield {"_stream": "tree", "fam": "tree", "src": "hist", "hist": t["hist"], "step": i, "op": {"name": "doc:" + name},
               "out": out, "exc": exc, "pre": pre, "post": post}
        # objects that are no longer part of the document (removed, refused copies) are forgotten
        kept = {"d1": doc}
        from .tree import _has_cycle
        if _has_cycle(post):
            break
