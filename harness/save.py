"""C07: every case of the OdmlSave model executed against a private directory."""
import os, io, json, shutil, tempfile, warnings, hashlib
from . import common as C
odml = C.import_odml()
from odml.tools.odmlparser import ODMLWriter, ODMLReader
from odml.tools.xmlparser import XMLWriter, XMLReader
from odml.tools.rdf_converter import RDFWriter
from odml.tools.parser_utils import ParserException

OLD = "previous content of the target file\n" * 3
EXT = {"XML": ".xml", "JSON": ".json", "YAML": ".yaml"}
TEMPLATE = '<xsl:template match="odML"><html><body>custom</body></html></xsl:template>'


class Unencodable(object):
    """an attribute object json cannot encode"""
    def __str__(self):
        return "unencodable-object"


def make_doc(c, first=None):
    """first: called with the still valid, fault-free document before it is edited into the case's state"""
    doc = odml.Document(author="a", version="1")
    s1 = odml.Section(name="s1", type="t", parent=doc)
    s2 = odml.Section(name="s2", type="t", parent=doc)
    p1 = odml.Property(name="p1", values=["x", "y"], parent=s1)
    odml.Property(name="p2", values=[1, 2], parent=s2)
    v, n = c["validity"], c.get("variant", 1)
    sub1 = odml.Section(name="sub", type="t", parent=s1)
    subp = odml.Property(name="sp", values=[3], parent=sub1)
    deep = odml.Section(name="deep", type="t", parent=sub1)
    if first is not None:
        first(doc)
    if n == 5:
        # the defect sits in a copy that resolving a link brought in and that was edited afterwards
        s2.link = "/s1"
        msub = s2.sections["sub"]
        if v == "missing-type":
            msub.type = None
        elif v == "dup-ids":
            msub.new_id(s1.id)
        elif v == "dup-names":
            q = odml.Section(name="other", type="t", parent=s2)
            q._name = "sub"
    elif v == "warnings":
        s2.type = "n.s."
    elif v == "missing-type":
        (s2 if n == 1 else sub1 if n == 2 else deep).type = None
    elif v == "dup-ids":
        if n == 1:
            s2.new_id(s1.id)
        elif n == 4:
            deep.new_id(doc.id)
        elif n == 2:
            sub1.new_id(s1.id)
        else:
            s2.append(sub1.clone(keep_id=True))          # same ids in another branch, below the top level
    elif v == "dup-names":
        if n == 1:
            s2._name = "s1"
        elif n == 2:
            x = odml.Section(name="other", type="t", parent=s1)
            x._name = "sub"
        else:
            q = odml.Property(name="other", values=[1], parent=sub1)
            q._name = "sp"
    if c["fault"] == "text-xml-cannot-hold":
        p1.definition = "control \x00 character"
    elif c["fault"] == "text-file-cannot-encode":
        p1.definition = "lone surrogate \udce9 from a file name"
    elif c["fault"] == "attribute-json-cannot-encode":
        p1._unit = Unencodable()
    return doc


def state_of(path, new_ok):
    if not os.path.exists(path):
        return "absent"
    data = open(path, "rb").read()
    if data == OLD.encode():
        return "old"
    return "new" if (len(data) > 0 and new_ok) else "damaged"


def replay(c):
    d = tempfile.mkdtemp(prefix="save", dir=os.environ.get("TMPDIR"))
    try:
        fmt = c["fmt"]
        rdf = fmt.startswith("RDF:")
        rfmt = fmt[4:] if rdf else None
        ext = EXT.get(fmt, "." + {"xml": "rdf", "turtle": "ttl", "nt": "nt", "n3": "n3", "json-ld": "jsonld", "bogus": "bogus"}.get(rfmt, "x"))
        target = os.path.join(d, "doc" + ext)
        given = target
        if c.get("tname") == "noext":
            # odml.save appends ".<backend>" to a name without extension: that file is the one at stake
            given = os.path.join(d, "doc")
            target = given + "." + ("RDF" if rdf else fmt)
            if "." in given:
                raise C.MachineryError("scratch path contains a dot: %s" % given)
        if c["file"] == "old":
            open(target, "w").write(OLD)
        holder = {}
        def first(valid_doc):
            # the writer object saves the still valid document to another path
            e = c["entry"]
            other = os.path.join(d, "earlier" + ext)
            if e == "ODMLWriter.write_file":
                holder["w"] = ODMLWriter("RDF" if rdf else fmt)
                if rdf:
                    holder["w"].write_file(valid_doc, other, rdf_format="xml" if rfmt == "bogus" else rfmt)
                else:
                    holder["w"].write_file(valid_doc, other)
            elif e == "XMLWriter.write_file":
                holder["w"] = XMLWriter(valid_doc)
                holder["w"].write_file(other)
            else:
                holder["w"] = RDFWriter(valid_doc)
                holder["w"].write_file(other, rdf_format="xml" if rfmt == "bogus" else rfmt)
        reused = c.get("prior") == "reused"
        if reused:
            with C.quiet():
                doc = make_doc(c, first)
        else:
            doc = make_doc(c)
        before_listing = sorted(os.listdir(d))
        before = state_of(target, False)
        out, exc, warned = "saved", "none", False
        with warnings.catch_warnings(record=True) as wl:
            warnings.simplefilter("error" if c["wmode"] == "error" else "always")
            try:
                kw = {}
                if c["opt"] == "local_style":
                    kw["local_style"] = True
                elif c["opt"] == "custom_template":
                    kw["custom_template"] = TEMPLATE
                elif c["opt"] == "template_tuple":
                    kw["custom_template"] = (TEMPLATE, "second piece")
                e = c["entry"]
                if e == "odml.save":
                    if rdf:
                        odml.save(doc, given, "RDF", rdf_format=rfmt)
                    else:
                        odml.save(doc, given, fmt, **kw)
                elif e == "ODMLWriter.write_file":
                    wr = holder["w"] if reused else ODMLWriter("RDF" if rdf else fmt)
                    if rdf:
                        wr.write_file(doc, target, rdf_format=rfmt)
                    else:
                        wr.write_file(doc, target, **kw)
                elif e == "XMLWriter.write_file":
                    (holder["w"] if reused else XMLWriter(doc)).write_file(target, **kw)
                else:
                    (holder["w"] if reused else RDFWriter(doc)).write_file(target, rdf_format=rfmt)
            except Exception as ex:
                out, exc = "raised", type(ex).__name__
            warned = any("unresolved issues" in str(w.message) for w in wl)
        # the writer may append an extension of its own: look at the whole directory
        after_listing = sorted(os.listdir(d))
        new_files = [f for f in after_listing if f not in before_listing]
        written = target if not new_files else os.path.join(d, new_files[0])
        loads = False
        if out == "saved":
            try:
                if rdf:
                    import rdflib
                    g = rdflib.Graph()
                    g.parse(written, format=rfmt)
                    loads = len(g) > 0
                else:
                    doc2 = odml.load(written, fmt, show_warnings=False)
                    loads = [s.name for s in doc2.sections] == [s.name for s in doc.sections] and \
                        doc2.sections[0].properties[0].values == doc.sections[0].properties[0].values
            except Exception:
                loads = False
        if out == "saved":
            after = state_of(written, True)
        else:
            after = state_of(target, False)
            if new_files:
                after = "damaged"           # a failed save created a file
        yield {"fam": "save", "src": "model", "c": c, "out": out, "exc": exc, "before": before, "after": after,
               "warned": warned, "loads": loads, "new_files": new_files}
    finally:
        shutil.rmtree(d, ignore_errors=True)
