"""C03 / C04 / C06 (structural part): replay of OdmlTree transitions into the real library
(R-binding), histories on one evolving object graph (H-binding), traces of the repository's
own tests (T-binding); all judged by spec/JudgeTree.tla."""
import os, sys, json, time, random, subprocess, glob
from . import common as C
from . import world as W
from . import par

odml = W.odml

CARD = {"none": None, "ok": (0, 7), "bad": (3, 1)}


def apply_op(objs, op, kind):
    n = op["name"]
    if n == "append":
        objs[op["c"]].append(objs[op["x"]])
    elif n == "insert":
        objs[op["c"]].insert(op["i"], objs[op["x"]])
    elif n == "extend2":
        objs[op["c"]].extend([objs[op["x"]], objs[op["y"]]])
    elif n == "remove":
        objs[op["c"]].remove(objs[op["x"]])
    elif n == "set_parent":
        objs[op["x"]].parent = None if op["c"] == "none" else objs[op["c"]]
    elif n == "setitem":
        c = objs[op["c"]]
        lst = c.sections if kind[op["x"]] == "sec" else c.properties
        lst[op["i"] - 1] = objs[op["x"]]
    elif n == "reorder":
        objs[op["x"]].reorder(op["i"])
    elif n == "rename":
        objs[op["x"]].name = {"none": None, "empty": ""}.get(op["n"], W.NAMES.get(op["n"]))
    elif n == "new_sec":
        objs[op["h"]] = odml.Section(name=W.conc_name(op["n"]), type="t",
                                     parent=None if op["c"] == "none" else objs[op["c"]],
                                     sec_cardinality=CARD[op["card"]])
    elif n == "new_prop":
        objs[op["h"]] = odml.Property(name=W.conc_name(op["n"]), values=[1],
                                      parent=None if op["c"] == "none" else objs[op["c"]],
                                      val_cardinality=CARD[op["card"]])
    elif n == "create_sec":
        objs[op["h"]] = objs[op["c"]].create_section(W.conc_name(op["n"]))
    elif n == "create_prop":
        objs[op["h"]] = objs[op["c"]].create_property(W.conc_name(op["n"]), values=[1])
    elif n == "create_prop_badvals":
        objs[op["h"]] = objs[op["c"]].create_property(W.conc_name(op["n"]), values=[1, "high"])
    elif n == "new_id":
        if op["y"] == "none":
            objs[op["x"]].new_id()
        else:
            objs[op["x"]].new_id(objs[op["y"]].id)
    elif n == "clone_attach":
        y = objs[op["x"]].clone(keep_id=op["keep"])
        if op["c"] != "none":
            objs[op["c"]].append(y)      # a refused append leaves only an unreferenced detached copy behind
        objs[op["h"]] = y
    else:
        raise C.MachineryError("unknown op " + n)


def step(objs, op, kind, birth=None):
    """Perform op on the real objects; returns (pre, out, exc, post, objs2)."""
    pre, objs = W.project(objs, birth=birth)
    try:
        apply_op(objs, op, kind)
        out, exc = "ok", "none"
    except C.MachineryError:
        raise
    except Exception as e:
        out, exc = "raised", type(e).__name__
    post, objs2 = W.project(objs, birth=birth)
    # make the domains of pre and post comparable: objects discovered only after the
    # operation (leaked half-constructed objects) stay in post only -> post # pre.
    return pre, out, exc, post, objs2


def replay(t):
    """One TLC-generated transition = one independent test of the real code."""
    objs = W.build(t["pre"])
    birth = {}
    pre0, _ = W.project(objs, docof=False, birth=birth)
    if {f: pre0[f] for f in t["pre"]} != t["pre"]:
        raise C.MachineryError("could not build pre-state: %r vs %r" % (pre0, t["pre"]))
    pre, out, exc, post, _ = step(objs, t["op"], t["pre"]["kind"], birth)
    yield {"fam": "tree", "src": "model", "op": t["op"], "out": out, "exc": exc, "pre": pre, "post": post}


# ---------------------------------------------------------------------------------------
# H-binding: seeded histories on ONE evolving object graph (no rebuilding between steps)

def history_cases(n_hist, depth, rng, universe):
    for i in range(n_hist):
        yield [{"hist": i, "seed": rng.randrange(1 << 30), "depth": depth, "universe": universe}]


def _ops_for(st, rng):
    """Enumerate candidate operations of the OdmlTree vocabulary for the current real world."""
    objs = [h for h, k in st["kind"].items() if k != "unborn"]
    conts = [h for h in objs if st["kind"][h] in ("doc", "sec")]
    kids = [h for h in objs if st["kind"][h] in ("sec", "prop")]
    c, x, y = rng.choice(conts), rng.choice(kids), rng.choice(kids)
    name = rng.choice(["append", "insert", "extend2", "remove", "set_parent", "setitem", "reorder", "rename",
                       "append", "set_parent", "insert", "rename", "clone_attach", "new_id"])
    if name == "new_id":
        return {"name": name, "x": x, "y": rng.choice(kids + ["none", "none"])}
    if name == "clone_attach":
        if len(objs) >= 16:
            name = "rename"
        else:
            return {"name": name, "x": x, "c": rng.choice(conts + ["none"]), "keep": False,
                    "h": "k%d" % (1 + sum(1 for o in objs if o.startswith("k")))}
    if name == "append":
        return {"name": name, "c": c, "x": rng.choice(objs)}
    if name == "insert":
        return {"name": name, "c": c, "i": rng.randrange(3), "x": x}
    if name == "extend2":
        return {"name": name, "c": c, "x": x, "y": y}
    if name == "remove":
        par = st["par"][x]
        return {"name": name, "c": par if par in conts and rng.random() < 0.7 else c, "x": x}
    if name == "set_parent":
        return {"name": name, "c": rng.choice(conts + ["none"]), "x": x}
    if name == "setitem":
        return {"name": name, "c": c, "i": 1 + rng.randrange(2), "x": x}
    if name == "reorder":
        return {"name": name, "x": x, "i": rng.randrange(-2, 3)}
    return {"name": "rename", "x": x, "n": rng.choice(["a", "b", "none", "empty"])}


def replay_history(t):
    rng = random.Random(t["seed"])
    u = t["universe"]
    st0 = {"kind": {}, "kids": {}, "plist": {}, "par": {}, "name": {}}
    for h, k in u.items():
        st0["kind"][h] = k; st0["kids"][h] = []; st0["plist"][h] = []; st0["par"][h] = "none"
        st0["name"][h] = rng.choice(["a", "b", "#" + h]) if k in ("sec", "prop") else "-"
    objs = W.build(st0)
    birth = {}
    for i in range(t["depth"]):
        cur, objs = W.project(objs, docof=False, birth=birth)
        op = _ops_for(cur, rng)
        pre, out, exc, post, objs = step(objs, op, cur["kind"], birth)
        yield {"fam": "tree", "src": "hist" if op["name"] == "clone_attach" else "model", "hist": t["hist"], "step": i, "op": op,
               "out": out, "exc": exc, "pre": pre, "post": post}
        # a parent cycle makes later library calls loop: stop the history there
        if _has_cycle(post):
            break


def _has_cycle(st):
    for x in st["par"]:
        seen, cur = set(), x
        while cur != "none" and cur in st["par"]:
            if cur in seen:
                return True
            seen.add(cur)
            cur = st["par"][cur]
    return "hang" in st.get("docof", {}).values()


def _wf_quick(st):
    for c, lst in list(st["kids"].items()) + list(st["plist"].items()):
        if len(set(lst)) != len(lst):
            return False
        for x in lst:
            if st["par"].get(x) != c:
                return False
    for x, p in st["par"].items():
        if p != "none" and (p not in st["kids"] or x not in st["kids"][p] + st["plist"][p]):
            return False
        seen, cur = set(), x
        while cur != "none" and cur in st["par"]:
            if cur in seen:
                return False
            seen.add(cur)
            cur = st["par"][cur]
    return "hang" not in st.get("docof", {}).values()
