"""Family 'registry' (C19)."""
import os
from . import common as C
from . import par

CFG = {"quick": "MC_Registry.cfg", "thorough": "MC_Registry_deep.cfg"}


def observe(tier):
    d = C.fresh_dir(os.path.join(C.BUILD, "registry"))
    cfg = CFG[tier]
    g = C.TlcGen("OdmlRegistry.tla", cfg, "registry", workers=8)
    import itertools
    # besides the sampled histories: the base document validated in 12 other processes with 12 different hash seeds
    xp = [[{"hist": ["default_validate"], "xp": k} for k in range(0, 12)]]
    n, files = par.replay_stream(itertools.chain(g.chunks(100), xp), "harness.registry", os.path.join(d, "R"), shard=8000)
    return {"judge": [("JudgeRegistry.tla", "JudgeRegistry.cfg", files)],
            "tlc": [{"cfg": cfg, "cmd": g.describe(), "states": g.stats["distinct"], "transitions": g.n_lines, "wall_s": round(g.wall, 1)}],
            "records": {"R": n},
            "explanation": "every history up to the configured depth over {default validation, Document.validate, new private validation (both documented forms), "
                           "register custom rule, run it, create Section/Property with cardinality, set cardinalities, save, load} replayed on one evolving interpreter "
                           "state; after every step the class-level rule registry, a digest of the full projection of the document and the issue multiset are judged by TLC; "
                           "a sample of histories ends with a validation of the saved document in another process with another PYTHONHASHSEED",
            "assumptions": ["the registry is observed as {class: sorted rule function names}", "the world is compared through a SHA-1 digest of its full projection"]}
