"""C01/C02, document level: decorated trees round-tripped through XML / JSON / YAML (string and
file entry, strict and lenient reader, XML writer options), the vocabulary of what was
written, and files written 'by another tool' to the 1.1 layout read by the real readers."""
import os, io, json, tempfile, shutil, datetime as dt
import yaml
from lxml import etree as ET
from . import common as C
from . import world as W
odml = W.odml
from odml.tools.odmlparser import ODMLWriter, ODMLReader
from odml.tools.xmlparser import XMLWriter, XMLReader
from odml.tools.dict_parser import DictReader, DictWriter

CARDS = [None, (None, 5), (2, None), (1, 3), (2, 2), (0, 3), (2, 10), (9, 12), (3, 100)]
PV = [
    ("string", ["yes", "null"]), ("string", ["1e3", "2020-01-01"]), ("string", [" padded ", "a,b"]), ("string", ["~", "0x10", "12:30:00"]),
    ("text", ["line1\nline2", "x"]), ("int", [1, 2 ** 70, -5]), ("int", [0, 5, 0]), ("float", [0.1 + 0.2, 1e-320, -0.0, 1.7976931348623157e308]),
    ("boolean", [True, False]), ("date", [dt.date(2020, 1, 2), dt.date(1999, 12, 31)]), ("time", [dt.time(1, 2, 3)]),
    ("datetime", [dt.datetime(2020, 1, 2, 3, 4, 5)]), ("url", ["http://x.org/a?b=1&c=2"]), ("person", ["Ünï Cödé <a@b>"]),
    ("date", [dt.date(987, 6, 5)]), ("text", ["first note", "second\nline", "third"]),
    ("string", ["a", "b b", "c", "d", "e", "f", "g", "h", "i", "j", "k", "l"]),
    ("2-tuple", ["(1;2)", "(3;4)"]), ("3-tuple", ["(a;b;c)"]), ("int", []), (None, []), ("string", ['say "hi"', "it's", "[br]"]), ("string", ["100%", "%%d"]), ("string", ["next\x85line", "sep\u2028arator", "nb\xa0sp"]), ("string", ["astral \U0001F600 plane", "x"]), ("float", [1e-07, 1e+16, 5.0]),
    ("datetime", [dt.datetime(2020, 1, 2, 3, 4, 5, tzinfo=dt.timezone(dt.timedelta(hours=2))), dt.datetime(1999, 12, 31, 23, 59, 59)]),
    ("time", [dt.time(1, 2, 3, tzinfo=dt.timezone.utc)]),
    ("string", ["\u212bngstr\u00f6m", "e\u0301 decomposed", "\u1112\u1161\u11ab"]),          # valid Unicode that is not in normal form C
]
TEXTS = ["plain G-Node text", "  surrounded by space \n", "<tag> & \"quote\"", "ünï, not in normal form C: \u2126 \u212b u\u0308", "yes", "12", None, "50%% of 10% %s",
         "two  blanks\tand a\nline break, NEL \x85 and LS \u2028 inside"]


REPOS = [None, "file:///nonexistent/terminologies/repoA.xml", None, "file:///nonexistent/terminologies/repoB.xml"]
INCLUDES = [None, None, "file:///nonexistent/other.xml#/sec/sub", None, None]


def mk(variant, salt=0):
    def f(h, k, st):
        n = (int(h[1:]) if h[1:].isdigit() else 0) + variant + salt
        if k == "doc":
            return odml.Document(author=TEXTS[(n % 9) if n % 9 != 6 else 0], version=TEXTS[(n + 1) % 9], date=[None, dt.date(2020, 1, 1 + n % 27), dt.date(321, 2, 3)][n % 3],
                                 repository=REPOS[n % 4])
        if k == "sec":
            sec = odml.Section(name=st["name"][h], type=["t", "a/b", " spaced type "][n % 3], definition=TEXTS[n % 9],
                               reference=TEXTS[(n + 3) % 9], sec_cardinality=CARDS[n % 9], prop_cardinality=CARDS[(n + 2) % 9],
                               repository=REPOS[(n + 1) % 4], include=INCLUDES[n % 5])
            if n % 7 == 4:
                del sec.definition          # the one deleter of the public API: the attribute is gone, not None
            return sec
        if k == "prop":
            d, v = PV[(n * 5 + variant) % len(PV)]
            if d is not None and not d.endswith("-tuple") and n % 3 == 0:
                d = getattr(odml.DType, d)          # the other spelling of a dtype: the DType member
            return odml.Property(name=st["name"][h], dtype=d, values=list(v), unit=[None, "mV", " µm "][n % 3],
                                 uncertainty=[None, 0, 0.5, 12, 1e-07, 1e+16][n % 6], definition=TEXTS[(n + 1) % 9], reference=TEXTS[(n + 2) % 9],
                                 dependency=[None, "other"][n % 2], dependency_value=[None, "val"][n % 2],
                                 value_origin=TEXTS[(n + 4) % 9], val_cardinality=CARDS[(n + 1) % 9])
        return None
    return f


def strip_world(st):
    """what XML keeps of a world: surrounding whitespace of every text is gone (trusted, trivial)"""
    import ast
    out = json.loads(json.dumps(st))
    for h, a in out["attrs"].items():
        for k, v in a.items():
            if isinstance(v, str) and v.startswith(("'", '"')) and v != "none":
                try:
                    a[k] = repr(ast.literal_eval(v).strip())
                except Exception:
                    pass
    for h, vals in out["vals"].items():
        for v in vals:
            if v["t"] in ("str", "list"):
                try:
                    v["e"] = [repr(ast.literal_eval(x).strip()) if x != "none" else x for x in v["e"]]
                except Exception:
                    pass
    for h, n in out["name"].items():
        out["name"][h] = n.strip() if isinstance(n, str) else n
    return out


def unc_text(st):
    """uncertainty as text (the XML reader hands numbers back as text: judged by a separate clause)"""
    out = json.loads(json.dumps(st))
    types = {}
    for h, a in out["attrs"].items():
        if "uncertainty" in a:
            v = a["uncertainty"]
            types[h] = "none" if v == "none" else ("str" if v.startswith(("'", '"')) else "num")
            if v != "none":
                try:
                    a["uncertainty"] = repr(float(v.strip("'\"")))
                except ValueError:
                    pass
    out["unctype"] = types
    return out


def vocab_xml(text):
    root = ET.fromstring(text.encode("utf-8"))
    pairs = set()
    def walk(e):
        for c in e:
            if not isinstance(c.tag, str):
                continue
            pairs.add((ET.QName(e).localname, ET.QName(c).localname))
            if c.tag in ("section", "property"):
                walk(c)
    walk(root)
    return {"root": root.tag, "version": root.get("version", "none"), "pairs": sorted([list(p) for p in pairs])}


def vocab_dict(dd):
    keys = set()
    def sec(s):
        for k, v in s.items():
            keys.add(("section", k))
        for p in s.get("properties", []) or []:
            for k in p:
                keys.add(("property", k))
        for c in s.get("sections", []) or []:
            sec(c)
    for k in dd:
        keys.add(("root", k))
    for k in dd.get("Document", {}):
        keys.add(("Document", k))
    for s in dd.get("Document", {}).get("sections", []) or []:
        sec(s)
    return sorted([list(k) for k in keys])


def replay(st):
    d = tempfile.mkdtemp(prefix="docs", dir=os.environ.get("TMPDIR"))
    try:
        for variant in (0, 3):
            salt = sum(ord(c) for c in json.dumps(st["name"], sort_keys=True) + json.dumps(st["par"], sort_keys=True)) % 97
            objs = W.build(st, mk=mk(variant, salt))
            doc = objs["d1"]
            idtok = W.IdTok()
            pre, _ = W.project_full(objs, idtok)
            pre_u = unc_text(pre)
            exp_xml = unc_text(strip_world(pre))
            cases = []
            for fmt in ("XML", "JSON", "YAML"):
                for entry in ("string", "file"):
                    for mode in (("strict", "lenient") if fmt == "XML" else ("lenient", "strict")):
                        opts = ("plain", "local_style", "custom_template") if (fmt == "XML" and entry == "file" and mode == "lenient") else ("plain",)
                        for opt in opts:
                            cases.append((fmt, entry, mode, opt))
            loaded_by_fmt = {}
            for fmt, entry, mode, opt in cases:
                rec = {"fam": "formats", "src": "model", "t": "doc", "fmt": fmt, "entry": entry, "mode": mode, "opt": opt, "variant": variant,
                       "out": "ok", "exc": "none", "x": "d1", "y": "r1", "warnings": 0, "vocab": {"root": "-", "version": "-", "pairs": []}, "dictkeys": []}
                try:
                    if entry == "string":
                        text = ODMLWriter(fmt).to_string(doc)
                    else:
                        path = os.path.join(d, "f." + fmt.lower())
                        kw = {"local_style": True} if opt == "local_style" else {"custom_template": '<xsl:template match="odML"><b>x</b></xsl:template>'} if opt == "custom_template" else {}
                        odml.save(doc, path, fmt, **kw)
                        text = open(path, encoding="utf-8").read()
                    if fmt == "XML":
                        rec["vocab"] = vocab_xml(text)
                    else:
                        rec["dictkeys"] = vocab_dict(json.loads(text) if fmt == "JSON" else yaml.safe_load(text))
                    if fmt == "XML":
                        if opt != "plain":
                            loaded = odml.load(path, "XML", show_warnings=False)
                        else:
                            rd = XMLReader(ignore_errors=(mode == "lenient"), show_warnings=False)
                            loaded = rd.from_string(text) if entry == "string" else rd.from_file(path)
                            rec["warnings"] = len(rd.warnings)
                    else:
                        if mode == "strict":
                            dd = json.loads(text) if fmt == "JSON" else yaml.safe_load(text)
                            loaded = DictReader(show_warnings=False, ignore_errors=False).to_odml(dd)
                        else:
                            r = ODMLReader(fmt, show_warnings=False)
                            loaded = r.from_string(text) if entry == "string" else r.from_file(path)
                    both, _ = W.project_full({"r1": loaded}, idtok)
                    rec["world"] = unc_text(both)
                    loaded_by_fmt.setdefault(fmt, rec["world"])
                except Exception as e:
                    rec["out"], rec["exc"] = "raised", type(e).__name__
                    rec["world"] = unc_text(W.project_full({"r1": odml.Document()}, idtok)[0])
                rec["exp"] = exp_xml if fmt == "XML" else pre_u
                yield rec
            # files written by another tool to the 1.1 layout
            for fmt in ("XML", "JSON", "YAML"):
                rec = {"fam": "formats", "src": "model", "t": "foreign", "fmt": fmt, "entry": "string", "mode": "strict", "opt": "plain",
                       "variant": variant, "out": "ok", "exc": "none", "x": "d1", "y": "r1", "warnings": 0,
                       "vocab": {"root": "-", "version": "-", "pairs": []}, "dictkeys": []}
                try:
                    if fmt == "XML":
                        text = foreign_xml(doc)
                        rd = XMLReader(ignore_errors=False, show_warnings=False)
                        loaded = rd.from_string(text)
                        rec["warnings"] = len(rd.warnings)
                    else:
                        dd = foreign_dict(doc)
                        text = json.dumps(dd) if fmt == "JSON" else yaml.safe_dump(dd)
                        loaded = ODMLReader(fmt, show_warnings=False).from_string(text)
                    rec["world"] = unc_text(W.project_full({"r1": loaded}, idtok)[0])
                except Exception as e:
                    rec["out"], rec["exc"] = "raised", type(e).__name__
                    rec["world"] = unc_text(W.project_full({"r1": odml.Document()}, idtok)[0])
                rec["exp"] = exp_xml if fmt == "XML" else pre_u
                yield rec
            # XML of another tool that declares a general entity in its DOCTYPE and uses it inside texts
            text = foreign_xml(doc)
            if "G-Node" in text:
                rec = {"fam": "formats", "src": "model", "t": "foreign", "fmt": "XML", "entry": "string-with-entity", "mode": "strict", "opt": "plain",
                       "variant": variant, "out": "ok", "exc": "none", "x": "d1", "y": "r1", "warnings": 0,
                       "vocab": {"root": "-", "version": "-", "pairs": []}, "dictkeys": []}
                try:
                    rd = XMLReader(ignore_errors=False, show_warnings=False)
                    loaded = rd.from_string('<!DOCTYPE odML [<!ENTITY lab "G-Node">]>\n' + text.replace("G-Node", "&lab;"))
                    rec["warnings"] = len(rd.warnings)
                    rec["world"] = unc_text(W.project_full({"r1": loaded}, idtok)[0])
                except Exception as e:
                    rec["out"], rec["exc"] = "raised", type(e).__name__
                    rec["world"] = unc_text(W.project_full({"r1": odml.Document()}, idtok)[0])
                rec["exp"] = exp_xml
                yield rec
            # one reader object used for two loads of the same text (a reader may not carry state from one load to the next)
            for fmt in ("XML", "JSON", "YAML"):
                for mode in ("strict", "lenient"):
                    rec = {"fam": "formats", "src": "model", "t": "doc", "fmt": fmt, "entry": "reader-reused", "mode": mode, "opt": "plain", "variant": variant,
                           "out": "ok", "exc": "none", "x": "d1", "y": "r1", "warnings": 0, "vocab": {"root": "-", "version": "-", "pairs": []}, "dictkeys": []}
                    try:
                        text = ODMLWriter(fmt).to_string(doc)
                        path = os.path.join(d, "twice." + fmt.lower())
                        open(path, "w", encoding="utf-8").write(text)
                        if fmt == "XML":
                            rec["vocab"] = vocab_xml(text)
                            rd = XMLReader(ignore_errors=(mode == "lenient"), show_warnings=False)
                            rd.from_string(text)
                            loaded = rd.from_file(path) if variant else rd.from_string(text)
                            rec["warnings"] = len(rd.warnings)
                        else:
                            dd = json.loads(text) if fmt == "JSON" else yaml.safe_load(text)
                            rec["dictkeys"] = vocab_dict(dd)
                            if mode == "strict":
                                rd = DictReader(show_warnings=False, ignore_errors=False)
                                rd.to_odml(dd)
                                loaded = rd.to_odml(json.loads(text) if fmt == "JSON" else yaml.safe_load(text))
                            else:
                                rd = ODMLReader(fmt, show_warnings=False)
                                rd.from_string(text)
                                loaded = rd.from_file(path) if variant else rd.from_string(text)
                        rec["world"] = unc_text(W.project_full({"r1": loaded}, idtok)[0])
                    except Exception as e:
                        rec["out"], rec["exc"] = "raised", type(e).__name__
                        rec["world"] = unc_text(W.project_full({"r1": odml.Document()}, idtok)[0])
                    rec["exp"] = exp_xml if fmt == "XML" else pre_u
                    yield rec
            # a document the XML form cannot represent (a control character that XML 1.0 forbids, in one text of the document):
            # the writer has to raise - or the file still loads to the document; it is never written in altered form
            ctl = ["esc\x1b[0m", "bell\x07", "ff\x0c", "nul-ish\x01"][(variant + salt) % 4]
            cdoc = doc.clone(keep_id=True)
            where = (variant + salt) % 5
            csecs = list(cdoc.itersections())
            cprops = [p for p in cdoc.iterproperties() if p.dtype in ("string", "text") and p.values]
            if where == 0 or not csecs:
                cdoc.author = ctl
            elif where == 1 or not cprops:
                csecs[salt % len(csecs)].definition = ctl
            elif where == 2:
                cprops[salt % len(cprops)].values = [ctl]
            elif where == 3:
                cp = cprops[salt % len(cprops)]
                cp.values = list(cp.values) + [ctl]
            else:
                cprops[salt % len(cprops)].definition = ctl
            cexp = unc_text(strip_world(W.project_full({"d1": cdoc}, idtok)[0]))
            for entry in ("string", "file", "XMLWriter.str", "XMLWriter.write_file"):
                rec = {"fam": "formats", "src": "model", "t": "unrep", "fmt": "XML", "entry": entry, "mode": "strict", "opt": "plain", "variant": variant,
                       "out": "ok", "exc": "none", "stage": "write", "x": "d1", "y": "r1", "warnings": 0, "vocab": {"root": "-", "version": "-", "pairs": []}, "dictkeys": [],
                       "exp": cexp}
                try:
                    path = os.path.join(d, "ctl.xml")
                    if entry == "string":
                        text = ODMLWriter("XML").to_string(cdoc)
                    elif entry == "file":
                        odml.save(cdoc, path, "XML"); text = open(path, encoding="utf-8").read()
                    elif entry == "XMLWriter.str":
                        text = str(XMLWriter(cdoc))
                    else:
                        XMLWriter(cdoc).write_file(path, local_style=bool(variant)); text = open(path, encoding="utf-8").read()
                    rec["stage"] = "read"
                    loaded = XMLReader(ignore_errors=False, show_warnings=False).from_string(text) if entry in ("string", "XMLWriter.str") else odml.load(path, "XML", show_warnings=False)
                    rec["world"] = unc_text(W.project_full({"r1": loaded}, idtok)[0])
                except Exception as e:
                    rec["out"], rec["exc"] = "raised", type(e).__name__
                    rec["world"] = unc_text(W.project_full({"r1": odml.Document()}, idtok)[0])
                yield rec
            # the same document is representable in JSON and YAML
            for fmt in ("JSON", "YAML"):
                rec = {"fam": "formats", "src": "model", "t": "doc", "fmt": fmt, "entry": "string-ctl", "mode": "lenient", "opt": "plain", "variant": variant,
                       "out": "ok", "exc": "none", "x": "d1", "y": "r1", "warnings": 0, "vocab": {"root": "-", "version": "-", "pairs": []}, "dictkeys": [],
                       "exp": unc_text(W.project_full({"d1": cdoc}, idtok)[0])}
                try:
                    text = ODMLWriter(fmt).to_string(cdoc)
                    rec["dictkeys"] = vocab_dict(json.loads(text) if fmt == "JSON" else yaml.safe_load(text))
                    loaded = ODMLReader(fmt, show_warnings=False).from_string(text)
                    rec["world"] = unc_text(W.project_full({"r1": loaded}, idtok)[0])
                except Exception as e:
                    rec["out"], rec["exc"] = "raised", type(e).__name__
                    rec["world"] = unc_text(W.project_full({"r1": odml.Document()}, idtok)[0])
                yield rec
            # one XMLWriter object: rendered once, the document edited, written again
            rec = {"fam": "formats", "src": "model", "t": "doc", "fmt": "XML", "entry": "writer-reused", "mode": "strict", "opt": "plain", "variant": variant,
                   "out": "ok", "exc": "none", "x": "d1", "y": "r1", "warnings": 0, "vocab": {"root": "-", "version": "-", "pairs": []}, "dictkeys": []}
            try:
                wr = XMLWriter(doc)
                str(wr)
                late = odml.Section(name="late-addition", type="t", parent=doc)
                odml.Property(name="late", values=[1, 2], unit="mV", parent=late)
                doc.author = "changed author"
                objs2 = dict(objs); objs2["lt1"] = late
                now, _ = W.project_full(objs2, idtok)
                rec["exp"] = unc_text(strip_world(now))
                path = os.path.join(d, "again.xml")
                wr.write_file(path)
                text = open(path, encoding="utf-8").read()
                rec["vocab"] = vocab_xml(text)
                rd = XMLReader(ignore_errors=False, show_warnings=False)
                loaded = rd.from_file(path)
                rec["warnings"] = len(rd.warnings)
                rec["world"] = unc_text(W.project_full({"r1": loaded}, idtok)[0])
            except Exception as e:
                rec["out"], rec["exc"] = "raised", type(e).__name__
                rec["world"] = unc_text(W.project_full({"r1": odml.Document()}, idtok)[0])
                rec.setdefault("exp", exp_xml)
            yield rec
    finally:
        shutil.rmtree(d, ignore_errors=True)


# ---- an independent, minimal writer to the odML 1.1 layout ("another tool") ----
def _txt(v):
    import enum
    if isinstance(v, enum.Enum):
        return str(v.value)         # a dtype given as DType member: another tool writes the dtype's name
    if isinstance(v, (dt.datetime, dt.date, dt.time)):
        return str(v)
    return str(v)


def _card(c):
    return "(%s, %s)" % (c[0], c[1])


def _vals_text(p):
    vals = p.values
    if p.dtype and p.dtype.endswith("-tuple"):
        return "[" + ",".join("(" + ";".join(v) + ")" for v in vals) + "]"
    texts = [_txt(v).strip() for v in vals]
    if len(texts) == 1:
        return texts[0]
    out = []
    for t in texts:
        if any(ch in t for ch in ',"\n\r'):
            t = '"' + t.replace('"', '""') + '"'
        out.append(t)
    return "[" + ",".join(out) + "]"


def foreign_xml(doc):
    root = ET.Element("odML", version="1.1")
    def put(parent, tag, v):
        if v is not None:
            ET.SubElement(parent, tag).text = _txt(v)
    put(root, "id", doc.id); put(root, "author", doc.author); put(root, "version", doc.version); put(root, "date", doc.date)
    put(root, "repository", doc.repository)
    def sec(parent, s):
        e = ET.SubElement(parent, "section")
        put(e, "id", s.id); put(e, "name", s.name); put(e, "type", s.type); put(e, "definition", getattr(s, "definition", None)); put(e, "reference", s.reference)
        put(e, "repository", s._repository); put(e, "include", s.include)
        if s.sec_cardinality: put(e, "sec_cardinality", _card(s.sec_cardinality))
        if s.prop_cardinality: put(e, "prop_cardinality", _card(s.prop_cardinality))
        for p in s.properties:
            pe = ET.SubElement(e, "property")
            put(pe, "id", p.id); put(pe, "name", p.name); put(pe, "type", p.dtype)
            if p.values: put(pe, "value", _vals_text(p))
            put(pe, "unit", p.unit); put(pe, "uncertainty", p.uncertainty); put(pe, "definition", p.definition); put(pe, "reference", p.reference)
            put(pe, "dependency", p.dependency); put(pe, "dependencyvalue", p.dependency_value); put(pe, "value_origin", p.value_origin)
            if p.val_cardinality: put(pe, "val_cardinality", _card(p.val_cardinality))
        for c in s.sections:
            sec(e, c)
    for s in doc.sections:
        sec(root, s)
    return ET.tostring(root, encoding="unicode")


def foreign_dict(doc):
    def val(v):
        return str(v) if isinstance(v, (dt.datetime, dt.date, dt.time)) else v
    def sec(s):
        e = {"id": s.id, "name": s.name, "type": s.type}
        for k in ("definition", "reference", "include"):
            if getattr(s, k, None) is not None: e[k] = getattr(s, k)
        if s._repository is not None: e["repository"] = s._repository          # its own, not an inherited one
        if s.sec_cardinality: e["sec_cardinality"] = list(s.sec_cardinality)
        if s.prop_cardinality: e["prop_cardinality"] = list(s.prop_cardinality)
        props = []
        for p in s.properties:
            pe = {"id": p.id, "name": p.name}
            if p.dtype is not None: pe["type"] = _txt(p.dtype)
            if p.dtype and p.dtype.endswith("-tuple") and p.values:
                pe["value"] = "[" + ",".join("(" + ";".join(v) + ")" for v in p.values) + "]"
            else:
                pe["value"] = [val(v) for v in p.values]
            for k, a in (("unit", "unit"), ("uncertainty", "uncertainty"), ("definition", "definition"), ("reference", "reference"),
                         ("dependency", "dependency"), ("dependencyvalue", "dependency_value"), ("value_origin", "value_origin")):
                if getattr(p, a) is not None: pe[k] = getattr(p, a)
            if p.val_cardinality: pe["val_cardinality"] = list(p.val_cardinality)
            props.append(pe)
        if props: e["properties"] = props
        subs = [sec(c) for c in s.sections]
        if subs: e["sections"] = subs
        return e
    dd = {"id": doc.id}
    for k in ("author", "version", "repository"):
        if getattr(doc, k) is not None: dd[k] = getattr(doc, k)
    if doc.date is not None: dd["date"] = str(doc.date)
    dd["sections"] = [sec(s) for s in doc.sections]
    return {"Document": dd, "odml-version": "1.1"}
