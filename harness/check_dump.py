"""Family 'dump' (X04, beyond the listed properties)."""
import os
from . import common as C
from . import par


def observe(tier):
    d = C.fresh_dir(os.path.join(C.BUILD, "dump"))
    cfg = "MC_Docs_quick.cfg" if tier == "quick" else "MC_Paths_quick.cfg"
    g = C.TlcGen("OdmlPathsGen.tla", cfg, "dump", workers=8)
    n, files = par.replay_stream(g.chunks(50), "harness.dump", os.path.join(d, "O"), shard=1500)
    return {"judge": [("JudgeDump.tla", "JudgeDump.cfg", files)],
            "tlc": [{"cfg": cfg, "cmd": g.describe(), "states": g.stats["distinct"], "transitions": g.n_lines, "wall_s": round(g.wall, 1)}],
            "records": {"O": n},
            "explanation": "dumper.dump_doc of every tree of the generator, decorated; the printed lines, parsed into (kind, name, width, attributes listed), "
                           "are compared by TLC with the dump OdmlDump computes from the tree and the set attributes",
            "assumptions": ["names are free of blanks"]}
