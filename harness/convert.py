"""C15: every 1.0 document of the OdmlConvertGen model rendered as XML / JSON / YAML, converted by
VersionConverter (StringIO and file input, convert and write_to_file) and loaded strictly."""
import os, io, re, json, uuid, hashlib, tempfile, shutil
import yaml
from lxml import etree as ET
from . import common as C
odml = C.import_odml()
from odml.tools.converters.version_converter import VersionConverter
from odml.tools.xmlparser import XMLReader

TREE = {"s1": "d1", "s2": "d1", "s3": "s1", "s4": "s2", "p1": "s1", "p2": "s1", "p5": "s1", "p3": "s2", "p4": "s3"}
ORDER = ["s1", "s2", "s3", "s4", "p1", "p2", "p5", "p3", "p4"]
IDS = {h: str(uuid.uuid5(uuid.NAMESPACE_DNS, h)) for h in ["d1"] + ORDER}
ATTR10 = {"unit": "unit", "dtype": "type", "uncertainty": "uncertainty", "filename": "filename", "definition": "definition", "reference": "reference"}
RESATTR = {"unit": "unit", "dtype": "dtype", "uncertainty": "uncertainty", "filename": "value_origin", "definition": "definition", "reference": "reference"}
AVAL = {"unit": ["mV", "kHz", "s"], "dtype": ["string", "text", "person"], "uncertainty": ["0.5", "2", "7"],
        "filename": ["f1.dat", "f2.dat", "f3.dat"], "definition": ["def one", "def two", "def three"], "reference": ["ref1", "ref2", "ref3"]}


def id_text(idc, h):
    return {"valid": IDS[h], "malformed": "not-a-uuid-" + h}.get(idc)


def value_specs(p, h):
    """per value element: text and attributes"""
    out = []
    n = p["nvals"]
    for i in range(n):
        text = (("val%d" % (i + 1)) if p["vtext"] == "plain" else ("al,pha%d" % (i + 1)) if p["vtext"] == "comma"
                else ("step %d\nsecond line" % (i + 1)) if p["vtext"] == "newline" else ["0", "0.0", "False"][i])
        if p["vtext"] == "blankfirst":
            # the usual 1.0 way to type a Property: a first value element without text that only carries attributes
            text = "" if i == 0 else "val%d" % (i + 1)
        at = {}
        for a in ATTR10:
            pl = p[a]
            if a == "dtype" and pl == "binary":
                if i == 0:
                    at["type"] = "binary"
                continue
            if pl == "first" and i == 0:
                at[ATTR10[a]] = AVAL[a][0]
            elif pl == "later" and i == 1:
                at[ATTR10[a]] = AVAL[a][0]
            elif pl == "all-agree":
                at[ATTR10[a]] = AVAL[a][0]
            elif pl == "all-conflict":
                at[ATTR10[a]] = AVAL[a][i % 3]
        if p["vextra"] and i == 0:
            at["checksum"] = "crc32--$" + h               # a text of its own per Property: every drop has to be recorded, not one of them
        if p["vtext"] == "blankfirst" and i == 0 and "type" not in at:
            at["type"] = "string"
        out.append((text, at))
    return out


def render_xml(g):
    root = ET.Element("odML", version="1")
    ET.SubElement(root, "author").text = "author"
    if id_text(g["d1"]["idc"], "d1"):
        ET.SubElement(root, "id").text = id_text(g["d1"]["idc"], "d1")
    if g["d1"]["extra"]:
        ET.SubElement(root, "unsupported").text = "docjunk"
    elems = {"d1": root}
    for h in ORDER:
        s = g[h]
        if h.startswith("s"):
            e = ET.SubElement(elems[TREE[h]], "section")
            ET.SubElement(e, "name").text = s["name"]
            ET.SubElement(e, "type").text = "t"
            if id_text(s["idc"], h):
                ET.SubElement(e, "id").text = id_text(s["idc"], h)
            if s["extra"]:
                ET.SubElement(e, "mapping").text = "secjunk"
            elems[h] = e
    for h in ORDER:
        p = g[h]
        if h.startswith("p"):
            e = ET.SubElement(elems[TREE[h]], "property")
            if p["named"]:
                ET.SubElement(e, "name").text = p["name"]
            if id_text(p["idc"], h):
                ET.SubElement(e, "id").text = id_text(p["idc"], h)
            if p["extra"]:
                ET.SubElement(e, "synonym").text = "propjunk"
            if p["depval"]:
                ET.SubElement(e, "dependency").text = "other"
                ET.SubElement(e, "dependency_value").text = "depv"
            for text, at in value_specs(p, h):
                v = ET.SubElement(e, "value")
                if text != "":
                    v.text = text
                for k, val in at.items():
                    ET.SubElement(v, k).text = val
    # sections must come after properties inside a section? order is free in 1.0; keep as built
    return ET.tostring(root, encoding="unicode", pretty_print=True)


def render_dict(g):
    def prop(h):
        p = g[h]
        d = {}
        if p["named"]:
            d["name"] = p["name"]
        if id_text(p["idc"], h):
            d["id"] = id_text(p["idc"], h)
        if p["extra"]:
            d["synonym"] = "propjunk"
        if p["depval"]:
            d["dependency"] = "other"
            d["dependency_value"] = "depv"
        vals = []
        for text, at in value_specs(p, h):
            v = {"value": {"0": 0, "0.0": 0.0, "False": False}.get(text, text) if p["vtext"] == "falsy" else text}
            if text == "":
                v = {}
            v.update(at)
            vals.append(v)
        if vals:
            d["values"] = vals
        return d
    def sec(h):
        s = g[h]
        d = {"name": s["name"], "type": "t"}
        if id_text(s["idc"], h):
            d["id"] = id_text(s["idc"], h)
        if s["extra"]:
            d["mapping"] = "secjunk"
        props = [prop(x) for x in ORDER if x.startswith("p") and TREE[x] == h]
        if props:
            d["properties"] = props
        subs = [sec(x) for x in ORDER if x.startswith("s") and TREE[x] == h]
        if subs:
            d["sections"] = subs
        return d
    doc = {"author": "author"}
    if id_text(g["d1"]["idc"], "d1"):
        doc["id"] = id_text(g["d1"]["idc"], "d1")
    if g["d1"]["extra"]:
        doc["unsupported"] = "docjunk"
    doc["sections"] = [sec(x) for x in ORDER if x.startswith("s") and TREE[x] == "d1"]
    return {"Document": doc, "odml-version": "1"}


def src_facts(g):
    secs = {h: {"name": g[h]["name"], "idc": g[h]["idc"], "extra": g[h]["extra"]} for h in ORDER if h.startswith("s")}
    props = {}
    for h in ORDER:
        if not h.startswith("p"):
            continue
        p = g[h]
        vs = value_specs(p, h)
        cands = {}
        for a in ATTR10:
            key = RESATTR[a]
            vals = [at[ATTR10[a]] for _, at in vs if ATTR10[a] in at]
            if a == "dtype":
                vals = ["text" if v == "binary" else v for v in vals]
            cands[key] = vals
        props[h] = {"name": p["name"], "named": p["named"], "idc": p["idc"], "extra": p["extra"], "vextra": p["vextra"] and p["nvals"] > 0,
                    "vals": [t for t, _ in vs if t != ""], "cands": cands, "depval": "depv" if p["depval"] else "none",
                    "binary": p["dtype"] == "binary" and p["nvals"] > 0}
    return {"secs": secs, "props": props, "docidc": g["d1"]["idc"], "docextra": g["d1"]["extra"]}


def namerel(orig, new):
    if new == orig:
        return "same"
    return "suffixed" if re.match(re.escape(orig) + r"-\d+$", str(new)) else "other"


def idrel(idc, h, got):
    try:
        canon = str(uuid.UUID(got)) == got
    except Exception:
        canon = False
    if not canon:
        return "bad"
    return "kept" if got == IDS[h] else "fresh"


def res_facts(g, doc):
    secs, props = {}, {}
    def walk(container, cont_h):
        sh = [x for x in ORDER if x.startswith("s") and TREE[x] == cont_h]
        for h, s in zip(sh, list(container.sections) + [None] * 3):
            if s is None:
                secs[h] = {"found": False, "name": "-", "namerel": "other", "id": "bad"}
                continue
            secs[h] = {"found": True, "name": s.name, "namerel": namerel(g[h]["name"], s.name), "id": idrel(g[h]["idc"], h, s.id)}
            ph = [x for x in ORDER if x.startswith("p") and TREE[x] == h and g[x]["named"]]
            for x in [x for x in ORDER if x.startswith("p") and TREE[x] == h and not g[x]["named"]]:
                props[x] = nf()
            pl = list(s.properties)
            for x, p in zip(ph, pl + [None] * 4):
                if p is None:
                    props[x] = nf()
                    continue
                a = {k: ("none" if getattr(p, k) is None else str(getattr(p, k))) for k in
                     ("unit", "dtype", "uncertainty", "value_origin", "definition", "reference", "dependency_value")}
                props[x] = {"found": True, "name": p.name, "namerel": namerel(g[x]["name"], p.name), "id": idrel(g[x]["idc"], x, p.id),
                            "vals": [str(v) for v in p.values], "attrs": a, "extra_props": len(pl) - len(ph)}
            walk(s, h)
    def nf():
        return {"found": False, "name": "-", "namerel": "other", "id": "bad", "vals": [],
                "attrs": {k: "none" for k in ("unit", "dtype", "uncertainty", "value_origin", "definition", "reference", "dependency_value")}, "extra_props": 0}
    walk(doc, "d1")
    for h in ORDER:
        if h.startswith("s") and h not in secs:
            secs[h] = {"found": False, "name": "-", "namerel": "other", "id": "bad"}
        if h.startswith("p") and h not in props:
            props[h] = nf()
    return {"secs": secs, "props": props, "docid": idrel(g["d1"]["idc"], "d1", doc.id)}


def log_facts(g, log):
    low = [l for l in log]
    def has(*words):
        return any(all(w in l for w in words) for l in low)
    out = {"d1": {"extra": has("unsupported")}}
    for h in ORDER:
        if h.startswith("s"):
            out[h] = {"extra": has("mapping")}
        else:
            def conflict(a, tag):
                # every omitted value is mentioned (with all-conflict the second and third value element carry other texts)
                ok = has(tag, "already exported")
                if g[h][a] == "all-conflict":
                    for i in range(1, g[h]["nvals"]):
                        ok = ok and has(tag, "already exported", "'%s'" % AVAL[a][i % 3])
                return ok
            out[h] = {"unnamed": has("without", "name"), "extra": has("synonym"), "vextra": has("checksum", "crc32--$" + h),
                      "unit": conflict("unit", "unit"), "dtype": conflict("dtype", "type"),
                      "uncertainty": conflict("uncertainty", "uncertainty"), "value_origin": conflict("filename", "filename"),
                      "definition": conflict("definition", "definition"), "reference": conflict("reference", "reference")}
    return out


def empty_res():
    nf = {"found": False, "name": "-", "namerel": "other", "id": "bad", "vals": [],
          "attrs": {k: "none" for k in ("unit", "dtype", "uncertainty", "value_origin", "definition", "reference", "dependency_value")}, "extra_props": 0}
    return {"secs": {h: {"found": False, "name": "-", "namerel": "other", "id": "bad"} for h in ORDER if h.startswith("s")},
            "props": {h: dict(nf) for h in ORDER if h.startswith("p")}, "docid": "bad"}


def replay(g):
    d = tempfile.mkdtemp(prefix="conv", dir=os.environ.get("TMPDIR"))
    try:
        src = src_facts(g)
        xml = render_xml(g)
        dd = render_dict(g)
        for fmt, entry in (("XML", "stringio"), ("XML", "file"), ("JSON", "file"), ("YAML", "file"), ("XML", "write_to_file")):
            rec = {"fam": "convert", "src_tag": "model", "fmt": fmt, "entry": entry, "out": "ok", "exc": "none", "strictload": "ok",
                   "res": empty_res(), "logged": log_facts(g, []), "srcsame": True, "g": g}
            try:
                path = os.path.join(d, "in." + fmt.lower())
                if fmt == "XML":
                    open(path, "w").write(xml)
                elif fmt == "JSON":
                    json.dump(dd, open(path, "w"))
                else:
                    yaml.safe_dump(dd, open(path, "w"))
                before = hashlib.sha1(open(path, "rb").read()).hexdigest()
                source = io.StringIO(xml) if entry == "stringio" else path
                vc = VersionConverter(source)
                if entry == "write_to_file":
                    outp = os.path.join(d, "out.xml")
                    vc.write_to_file(outp, fmt)
                    text = open(outp).read()
                else:
                    text = vc.convert(fmt)
                    log1 = list(vc.conversion_log)
                    # the same converter object asked again (convert, then str / write_to_file, is one object converting twice)
                    vc.convert(fmt)
                    log2 = list(vc.conversion_log)
                    # "the source is never modified": a second conversion of the same source object gives the same result
                    again = VersionConverter(source).convert(fmt)
                    if re.sub(r"[0-9a-f]{8}-[0-9a-f]{4}-[0-9a-f]{4}-[0-9a-f]{4}-[0-9a-f]{12}", "ID", again) != \
                            re.sub(r"[0-9a-f]{8}-[0-9a-f]{4}-[0-9a-f]{4}-[0-9a-f]{4}-[0-9a-f]{12}", "ID", text):
                        rec["srcsame"] = False
                        rec["again_differs"] = True
                rec["srcsame"] = rec["srcsame"] and hashlib.sha1(open(path, "rb").read()).hexdigest() == before and \
                    (entry != "stringio" or source.getvalue() == xml)
                rec["logged"] = log_facts(g, vc.conversion_log)
                if entry != "write_to_file":
                    # an entry counts only if every conversion of this converter recorded it
                    l1, l2 = log_facts(g, log1), log_facts(g, log2)
                    rec["logged"] = {h: {k: (l1[h][k] and l2[h][k]) for k in l1[h]} for h in l1}
                try:
                    rd = XMLReader(ignore_errors=False, show_warnings=False)
                    doc = rd.from_file(outp) if entry == "write_to_file" else rd.from_string(text)
                    rec["res"] = res_facts(g, doc)
                except Exception as e:
                    rec["strictload"] = "raised:" + type(e).__name__
            except Exception as e:
                rec["out"], rec["exc"] = "raised", type(e).__name__
            rec["src"] = src
            yield rec
    finally:
        shutil.rmtree(d, ignore_errors=True)
