"""C17: every (directory, tool, options) of the OdmlBatch model materialised in a private directory
and run through the real command line entry points in-process."""
import os, io, sys, json, hashlib, shutil, tempfile, contextlib
import yaml
from . import common as C
odml = C.import_odml()
from . import convert as CV

BASE_G = None


def base_g():
    """the base 1.0 document of the convert family"""
    g = {"d1": {"idc": "valid", "extra": False}}
    for h in CV.ORDER:
        if h.startswith("s"):
            g[h] = {"name": {"s2": "b"}.get(h, "a"), "idc": "valid", "extra": False}
        else:
            g[h] = {"name": {"p2": "b", "p5": "c"}.get(h, "a"), "named": True, "idc": "valid", "extra": False, "nvals": 1, "vtext": "plain",
                    "unit": "none", "dtype": "none", "uncertainty": "none", "filename": "none", "definition": "none", "reference": "none",
                    "vextra": False, "depval": False}
    return g


def v11_doc(tag):
    doc = odml.Document(author="me")
    s = odml.Section(name="sec-" + tag, type="t", parent=doc)
    odml.Property(name="p", values=[1, 2], parent=s)
    return doc


def content(kind, tag):
    if kind.startswith("v10"):
        g = base_g()
        g["s1"]["name"] = "sec-" + tag
        if kind == "v10xml":
            return CV.render_xml(g)
        if kind == "v10xmlent":
            # the same file with a general entity declared in its DOCTYPE and used inside the Section name and a value text
            text = CV.render_xml(g).replace("sec-" + tag, "&pre;" + tag).replace(">val1<", ">&v;1<")
            dtd = '<!DOCTYPE odML [<!ENTITY pre "sec-"><!ENTITY v "val">]>\n'
            if text.startswith("<?xml"):
                i = text.index("?>") + 2
                return text[:i] + "\n" + dtd + text[i:].lstrip()
            return dtd + text
        dd = CV.render_dict(g)
        if kind == "v10jsontab":
            return json.dumps(dd, indent="\t")             # JSON indented with tabs (legal JSON, not YAML)
        return json.dumps(dd) if kind == "v10json" else yaml.safe_dump(dd)
    if kind.startswith("v11"):
        from odml.tools.odmlparser import ODMLWriter
        return ODMLWriter({"v11xml": "XML", "v11json": "JSON", "v11yaml": "YAML"}[kind]).to_string(v11_doc(tag))
    return {"empty": "", "text": "just some notes, not a markup file\nline 2\n", "malformed": "<odML version=\"1.1\"><section><name>x</name>",
            "foreign": "<?xml version=\"1.0\"?>\n<html><body><p>another vocabulary</p></body></html>\n"}[kind]


def sha(path):
    return hashlib.sha1(open(path, "rb").read()).hexdigest()


def listing(root):
    out = []
    for dp, dn, fn in os.walk(root):
        for f in fn:
            out.append(os.path.join(dp, f))
    return sorted(out)


def replay(t):
    files, run = t["files"], t["run"]
    tool, rec, outmode = run["tool"], run["recursive"], run["outdir"]
    d = tempfile.mkdtemp(prefix="batch", dir=os.environ.get("TMPDIR"))
    cwd0 = os.getcwd()
    try:
        indir = os.path.join(d, "input"); os.makedirs(os.path.join(indir, "sub"))
        cwd = os.path.join(d, "cwd"); os.makedirs(cwd)
        given = os.path.join(d, "given"); os.makedirs(given)
        paths = []
        for i, f in enumerate(files):
            tag = "f%d" % (i + 1)
            p = os.path.join(indir, "sub" if f["where"] == "sub" else "", "%s.%s" % (tag, f["ext"]))
            open(p, "w").write(content(f["kind"], tag))
            paths.append(p)
        before = {p: sha(p) for p in paths}
        pre_listing = set(listing(d))
        args = (["-r"] if rec else []) + (["-o", given] if outmode == "explicit" else []) + [indir]
        os.chdir(cwd)
        buf = io.StringIO()
        out = "ok"
        mod = __import__("odml.scripts.odml_convert" if tool == "odmlconvert" else "odml.scripts.odml_to_rdf", fromlist=["main"])
        try:
            with contextlib.redirect_stdout(buf), contextlib.redirect_stderr(io.StringIO()):
                mod.main(args)
        except SystemExit as e:
            out = "exit:%s" % e.code
        except BaseException as e:
            out = "raised:" + type(e).__name__
        os.chdir(cwd0)
        report = buf.getvalue()
        created = [p for p in listing(d) if p not in pre_listing]
        outroot = given if outmode == "explicit" else cwd
        where = []
        for p in created:
            where.append("inputdir" if p.startswith(indir + os.sep) else "outdir" if p.startswith(outroot + os.sep) and
                         os.path.relpath(p, outroot).split(os.sep)[0].startswith("odmlconv_") else "elsewhere")
        frecs = []
        for i, (f, p) in enumerate(zip(files, paths)):
            tag = "f%d" % (i + 1)
            want = ".rdf" if tool == "odmltordf" else "_conv.xml"
            outs = [c for c in created if os.path.basename(c).startswith(tag) and c.endswith(want)]
            loads = False
            if outs:
                try:
                    if tool == "odmltordf":
                        import rdflib
                        gph = rdflib.Graph(); gph.parse(outs[0], format="xml")
                        loads = any(str(o) == "sec-" + tag for o in gph.objects(None, rdflib.URIRef(str(odml.format.Format.namespace()) + "hasName")))
                    else:
                        doc = odml.load(outs[0], show_warnings=False)
                        loads = doc.sections[0].name == "sec-" + tag
                except Exception:
                    loads = False
            rep_lines = [l for l in report.splitlines() if p in l]
            reported = any(("[Error]" in l or "Skip recent" in l) for l in rep_lines)
            frecs.append({"kind": f["kind"], "ext": f["ext"], "where": f["where"], "same": os.path.exists(p) and sha(p) == before[p],
                          "output": bool(outs), "loads": loads, "reported": reported, "mentioned": bool(rep_lines)})
        yield {"fam": "batch", "src": "model", "tool": tool, "recursive": rec, "outdir": outmode, "files": frecs, "out": out, "created": where,
               "ncreated": len(created)}
    finally:
        os.chdir(cwd0)
        shutil.rmtree(d, ignore_errors=True)


FC_TARGETS = ["v1_1", "odml", "xml", "pretty-xml", "n3", "turtle", "ttl", "ntriples", "nt", "nt11", "trig", "json-ld"]
RDFLIB_FMT = {"ttl": "turtle", "ntriples": "nt", "nt11": "nt", "pretty-xml": "xml"}


def fc_cases():
    for target in FC_TARGETS:
        for rec in (False, True):
            for outmode in ("implicit", "explicit"):
                for sub in (False, True):
                    # names "dotted": directories with a dot in their name, the second file without an extension
                    yield [{"target": target, "recursive": rec, "outdir": outmode, "sub": sub, "names": "plain"}]
                    yield [{"target": target, "recursive": rec, "outdir": outmode, "sub": sub, "names": "dotted"}]


def fc_replay(t):
    """FormatConverter.convert on a directory of valid files of the kind the target expects"""
    from odml.tools.converters import FormatConverter
    target, rec, outmode = t["target"], t["recursive"], t["outdir"]
    kind = "v10xml" if target == "v1_1" else "v11xml"
    d = tempfile.mkdtemp(prefix="fc", dir=os.environ.get("TMPDIR"))
    try:
        dotted = t.get("names") == "dotted"
        inname = "exp.v2" if dotted else "input"
        indir = os.path.join(d, inname); os.makedirs(os.path.join(indir, "sub"))
        given = os.path.join(d, "results.2019" if dotted else "given"); os.makedirs(given)
        kind2 = "v10xmlent" if kind == "v10xml" and dotted else kind            # the second 1.0 file uses entities of its DOCTYPE
        files = [{"kind": kind, "ext": "xml", "where": "top"}, {"kind": kind2, "ext": "xml", "where": "sub" if t["sub"] else "top"}]
        paths = []
        for i, f in enumerate(files):
            tag = "f%d" % (i + 1)
            p = os.path.join(indir, "sub" if f["where"] == "sub" else "", ("%s" if (dotted and i == 1) else "%s.xml") % tag)
            open(p, "w").write(content(kind, tag))
            paths.append(p)
        before = {p: sha(p) for p in paths}
        pre = set(listing(d))
        out = "ok"
        args = [indir, target] + (["-out", given] if outmode == "explicit" else []) + (["-r"] if rec else [])
        try:
            with contextlib.redirect_stdout(io.StringIO()), contextlib.redirect_stderr(io.StringIO()):
                FormatConverter.convert(args)
        except SystemExit as e:
            out = "exit:%s" % e.code
        except BaseException as e:
            out = "raised:" + type(e).__name__
        created = [p for p in listing(d) if p not in pre]
        outroot = given if outmode == "explicit" else os.path.join(d, inname + "_" + target)
        where = ["inputdir" if p.startswith(indir + os.sep) else "outdir" if p.startswith(outroot + os.sep) else "elsewhere" for p in created]
        frecs = []
        for i, (f, p) in enumerate(zip(files, paths)):
            tag = "f%d" % (i + 1)
            outs = [c for c in created if os.path.basename(c).startswith(tag + ".") or os.path.basename(c) == tag]
            loads = False
            if outs:
                try:
                    if target in ("v1_1", "odml"):
                        loads = odml.load(outs[0], show_warnings=False).sections[0].name == "sec-" + tag
                    else:
                        import rdflib
                        gph = rdflib.ConjunctiveGraph() if target == "trig" else rdflib.Graph()
                        gph.parse(outs[0], format=RDFLIB_FMT.get(target, target))
                        loads = any(str(o) == "sec-" + tag for o in gph.objects(None, rdflib.URIRef(str(odml.format.Format.namespace()) + "hasName")))
                except Exception:
                    loads = False
            frecs.append({"kind": f["kind"], "ext": f["ext"], "where": f["where"], "same": os.path.exists(p) and sha(p) == before[p],
                          "output": bool(outs), "loads": loads, "reported": True, "mentioned": True})
        yield {"fam": "batch", "src": "model", "tool": target, "recursive": rec, "outdir": outmode, "files": frecs, "out": out, "created": where,
               "ncreated": len(created)}
    finally:
        shutil.rmtree(d, ignore_errors=True)
