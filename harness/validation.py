"""C08: every document of the OdmlValidationGen model is built for real and validated from
the document, from every Section and from every Property; also from detached copies."""
from . import common as C
from . import world as W
odml = W.odml
from odml import dtypes
from odml.validation import Validation

N = 99
CARDS = {"none": None, "1to1": (1, 1), "max1": (None, 1), "min1": (1, None), "min3": (3, None), "1to2": (1, 2), "2to2": (2, 2)}
T12 = "(" + ";".join(str(i) for i in range(12)) + ")"
VALS = {"text": ["alpha", "beta"], "ints": [1, 2], "empty": [], "one": ["alpha"], "tup2": ["(1;2)", "(3;4)"], "tup12": [T12, T12],
        "tup2bad": ["(1;2)", "(3;4)"], "tup12bad": [T12], "bools": [True, False], "dates": ["2020-01-02", "2021-03-04"]}
VDTYPE = {"bools": "boolean", "dates": "date", "tup2": "2-tuple", "tup12": "12-tuple", "tup2bad": "2-tuple", "tup12bad": "12-tuple"}
TREE = {"s1": "d1", "s2": "d1", "s3": "s1", "s4": "d1", "p1": "s1", "p2": "s1", "p3": "s2", "p4": "s3"}
ORDER = ["s1", "s2", "s3", "s4", "p1", "p2", "p3", "p4"]
BASE_NAMES = {"s1": "a", "s2": "b", "s3": "a", "s4": "a", "p1": "a", "p2": "b", "p3": "a", "p4": "a"}     # OdmlValidationGen!Base


def build(g):
    objs = {"d1": odml.Document(author="a")}
    for h in ORDER:
        spec = g[h]
        tmp = "tmp-" + h                       # unique while attaching; the real name is set afterwards
        if h.startswith("s"):
            o = odml.Section(name=tmp, type="t")       # the type of the model is set below
        else:
            o = odml.Property(name=tmp, values=list(VALS[spec["vals"]]), dtype=VDTYPE.get(spec["vals"]))
            if spec["vals"] == "tup2bad":
                o._values = [["1", "2"], ["1", "2", "3"]]          # planted: a value of another length
            elif spec["vals"] == "tup12bad":
                o._values = [["1"], [str(i) for i in range(12)]]
        objs[h] = o
        objs[TREE[h]].append(o)
    # the document first carries the names of the valid base document and is looked at once (a validation, look-ups by
    # name, membership tests): the document validated below is the result of an editing history, not a fresh object graph
    def rename(o, n):
        try:
            o.name = n                         # the public setter where it accepts the name
            if o.name != n:
                o._name = n
        except KeyError:
            o._name = n                        # duplicates among siblings: a document made invalid on purpose
    for h in ORDER:
        rename(objs[h], BASE_NAMES[h])
    with C.quiet():
        Validation(objs["d1"])
    for h in ORDER:
        par = objs[TREE[h]]
        lst = par.sections if h.startswith("s") else par.properties
        for n in ("a", "b", "zz"):
            try:
                lst[n]
            except (KeyError, IndexError):
                pass
            n in lst
        if h.startswith("p"):
            par.contains(objs[h])
    for h in ORDER:
        spec, o = g[h], objs[h]
        if spec["name"] == "#id":
            o.name = None
        elif o.name != spec["name"]:
            rename(o, spec["name"])
        if h.startswith("s"):
            o.type = None if spec["type"] == "none" else spec["type"]
            o.sec_cardinality = CARDS[spec["scard"]]
            o.prop_cardinality = CARDS[spec["pcard"]]
        else:
            o.val_cardinality = CARDS[spec["vcard"]]
    for h in ORDER:
        if g[h]["idof"] != h:
            objs[h].new_id(objs[g[h]["idof"]].id)          # shared ids, as keep_id clones produce
    for h in ORDER:
        if h.startswith("p"):
            spec, o = g[h], objs[h]
            if spec["dep"] != "none":
                o.dependency = spec["dep"]
                tgt = [q for q in o.parent.properties if q is not o and q.name == spec["dep"]]
                tv = [str(v) for v in tgt[0].values] if tgt else []
                dv = {"none": None, "first": tv[0] if tv else "alpha", "later": tv[1] if len(tv) > 1 else "beta",
                      "part": (tv[0][:-1] if tv and len(tv[0]) > 1 else "alph"), "other": "nomatch"}[spec["depval"]]
                o.dependency_value = dv
            if not spec["dtypeok"]:
                o._values = ["not-of-the-dtype"] if o.dtype != "string" else o._values
                if o.dtype in ("string", None):
                    o._dtype = "int"
                    o._values = ["not-an-int"]
    return objs


def card(c):
    return [N, N] if c is None else [N if c[0] is None else c[0], N if c[1] is None else c[1]]


def dtype_ok(p):
    d = p.dtype
    if d is None:
        return True
    for v in p.values:
        if v is None:
            break
        try:
            if d.endswith("-tuple"):
                if len(v) != int(d[:-6]):
                    return False
            else:
                dtypes.get(v, d)
        except ValueError:
            return False
    return True


def vworld(objs, idtok):
    st, objs = W.project(objs, docof=False)
    for f in ("type", "nameisid", "noname", "id", "dep", "depval", "valtexts", "dtypeok", "card"):
        st[f] = {}
    for h, o in objs.items():
        k = st["kind"][h]
        st["type"][h] = ("none" if not o.type else str(o.type)) if k == "sec" else "-"
        st["nameisid"][h] = k in ("sec", "prop") and o.name == o.id
        st["noname"][h] = k in ("sec", "prop") and not o.name
        st["id"][h] = idtok(o.id) if k in ("doc", "sec", "prop") else "none"
        st["name"][h] = str(o.name) if k in ("sec", "prop") else "-"
        st["dep"][h] = ("none" if o.dependency is None else str(o.dependency)) if k == "prop" else "none"
        st["depval"][h] = ("none" if o.dependency_value is None else str(o.dependency_value)) if k == "prop" else "none"
        st["valtexts"][h] = [str(v) for v in o.values] if k == "prop" else []
        st["dtypeok"][h] = dtype_ok(o) if k == "prop" else True
        st["card"][h] = [card(o.sec_cardinality) if k == "sec" else [N, N], card(o.prop_cardinality) if k == "sec" else [N, N],
                         card(o.val_cardinality) if k == "prop" else [N, N]]
    return st, objs


def observe(root, objs):
    hid = {id(o): h for h, o in objs.items() if o is not None}
    try:
        v = Validation(root)
        obs = [{"x": hid.get(id(e.obj), "?"), "k": e.validation_id.value if e.validation_id is not None else 0,
                "rank": str(e.rank)} for e in v.errors]
        return "ok", "none", obs
    except Exception as e:
        return "raised", type(e).__name__, []


def replay(g):
    objs = build(g)
    idtok = W.IdTok()
    w, objs = vworld(objs, idtok)
    for root in ["d1"] + ORDER:
        out, exc, obs = observe(objs[root], objs)
        yield {"fam": "validation", "src": "model", "g": g, "root": root, "detached": False, "w": w, "out": out, "exc": exc, "obs": obs}
    # stand-alone Section and Property (detached copies)
    for root in ("s1", "p1"):
        try:
            o2 = {"c1": objs[root].clone()}
        except (ValueError, KeyError):
            continue            # planted duplicates / values cannot be cloned
        w2, o2 = vworld(o2, W.IdTok())
        out, exc, obs = observe(o2["c1"], o2)
        yield {"fam": "validation", "src": "model", "g": g, "root": "c1", "detached": True, "w": w2, "out": out, "exc": exc, "obs": obs}
