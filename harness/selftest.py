"""Self-test of the binding (./check selftest): a judge that accepts a corrupted observation, or a trace
spec that accepts a corrupted trace, is broken.  Exit 0 when every corruption is rejected and every good
input accepted, exit 2 otherwise (machinery failure, never a verdict about the library)."""
import os, json, copy
from . import common as C


def _tree_obs():
    from . import tree
    st = {"kind": {"d1": "doc", "s1": "sec", "s2": "sec", "p1": "prop", "n1": "unborn", "j1": "other"},
          "kids": {"d1": ["s1"], "s1": [], "s2": [], "p1": [], "n1": [], "j1": []},
          "plist": {h: [] for h in ("d1", "s1", "s2", "p1", "n1", "j1")},
          "par": {"d1": "none", "s1": "d1", "s2": "none", "p1": "none", "n1": "none", "j1": "none"},
          "name": {"d1": "-", "s1": "a", "s2": "a", "p1": "a", "n1": "-", "j1": "-"}}
    ops = [{"name": "append", "c": "d1", "x": "s2"},            # refused: name clash
           {"name": "append", "c": "s1", "x": "s2"},            # accepted
           {"name": "append", "c": "s1", "x": "p1"}]
    recs = []
    for op in ops:
        recs += list(tree.replay({"pre": st, "op": op}))
    return recs


def _judge(recs, name, judge="JudgeTree"):
    d = C.fresh_dir(os.path.join(C.BUILD, "selftest_" + name))
    w = C.ObsWriter(os.path.join(d, "obs"))
    for r in recs:
        w.write(copy.deepcopy(r))
    w.close()
    v, _ = C.run_judges(judge + ".tla", judge + ".cfg", w.files)
    return [(x[1], x[2], x[3]) for x in v if x[0] == "VIOL"]


def run():
    failures = []
    with C.quiet():
        good = _tree_obs()
    if _judge(good, "good"):
        failures.append("the judge reports a violation on good observations")
    # 1. a child listed twice
    bad = copy.deepcopy(good)
    bad[1]["post"]["kids"]["s1"] = ["s2", "s2"]
    v = _judge(bad, "dupchild")
    if not any(p == "C03" and k.endswith(":2") for p, c, k in v):
        failures.append("a child listed twice was not rejected (C03/WF): %r" % v)
    # 2. a refused step with a changed world
    bad = copy.deepcopy(good)
    assert bad[0]["out"] == "raised"
    bad[0]["post"]["par"]["s2"] = "d1"
    v = _judge(bad, "atomic")
    if not any(p == "C06" and k.endswith(":1") for p, c, k in v):
        failures.append("a refused step that changed the world was not rejected (C06/Atomic): %r" % v)
    # 3. two siblings of one name
    bad = copy.deepcopy(good)
    bad[1]["post"]["name"]["s2"] = "a"; bad[1]["post"]["kids"]["d1"] = ["s1", "s2"]; bad[1]["post"]["par"]["s2"] = "d1"; bad[1]["post"]["kids"]["s1"] = []
    v = _judge(bad, "unique")
    if not any(p == "C04" for p, c, k in v):
        failures.append("duplicate sibling names were not rejected (C04): %r" % v)
    # 4. projection without parent pointers: must be a machinery failure, not a pass
    bad = copy.deepcopy(good)
    del bad[1]["post"]["par"]
    try:
        _judge(bad, "nopar")
        failures.append("an observation without the 'par' field was accepted")
    except C.MachineryError:
        pass
    # 5. loader: a real trace is accepted, the same trace with one event altered is rejected
    from . import sched, loader
    wd = os.path.join(C.BUILD, "selftest_loader")
    r = sched.run("chain", "dA_lA", [], wd)
    ok, _ = loader.validate_trace("chain", "dA_lA", r["log"], wd)
    if not ok:
        failures.append("a real event log of the loader was rejected by LoaderTrace")
    log = list(r["log"])
    i = next(i for i, e in enumerate(log) if e[1] == "loading.pop")
    log[i] = (log[i][0], "loaded.set", log[i][2], log[i][3])
    ok, reached = loader.validate_trace("chain", "dA_lA", log, wd)
    if ok or reached != i + 1:
        failures.append("an altered event log was not rejected at the altered event (accepted=%s reached=%s expected=%s)" % (ok, reached, i + 1))
    # 6. a removed hook: the same log without its "start" events is rejected
    log = [e for e in r["log"] if e[1] != "start"]
    ok, reached = loader.validate_trace("chain", "dA_lA", log, wd)
    if ok:
        failures.append("an event log without its thread-start events was accepted")
    # 7. refresh: a real trace with refresh is accepted; without its loaded.clear event it is rejected
    r = sched.run("chain", "dA_rA_lA_lA", [], wd, "terminology", "stale")
    ok, _ = loader.validate_trace("chain", "dA_rA_lA_lA", r["log"], wd, "stale")
    if not ok:
        failures.append("a real event log with refresh was rejected by LoaderTrace")
    ok, _ = loader.validate_trace("chain", "dA_rA_lA_lA", [e for e in r["log"] if e[1] != "loaded.clear"], wd, "stale")
    if ok:
        failures.append("an event log with refresh but without the loaded.clear event was accepted")
    # 7a. the TemplateHandler variant of the model: a real event log is accepted, the same log with one access attributed to the
    # terminology tables instead of the handler's own is rejected
    r = sched.run("chain", "dA_lA", [], wd, "template", "empty")
    ok, _ = loader.validate_trace("chain", "dA_lA", r["log"], wd, "empty", "template")
    if not ok:
        failures.append("a real event log of the TemplateHandler was rejected by LoaderTrace")
    log = [list(e) for e in r["log"]]
    k = [i for i, e in enumerate(log) if e[1] == "tloaded.set"][0]
    log[k][1] = "loaded.set"
    ok, reached = loader.validate_trace("chain", "dA_lA", log, wd, "empty", "template")
    if ok:
        failures.append("a TemplateHandler log with an altered event was accepted")
    # 7b. spec -> code: a behaviour of the model replayed into the real loader is followed (no divergence); the same
    # record with one event of the model's sequence altered, or another outcome, is reported as a divergence
    def _div(recs, name):
        d = C.fresh_dir(os.path.join(C.BUILD, "selftest_" + name))
        w = C.ObsWriter(os.path.join(d, "obs"))
        for r in recs:
            w.write(copy.deepcopy(r))
        w.close()
        v, _ = C.run_judges("JudgeLoader.tla", "JudgeLoader.cfg", w.files)
        return [x for x in v if x[0] == "DIVERGENCE"], [x for x in v if x[0] == "VIOL"]
    with C.quiet():
        beh = list(loader.replay({"beh": True, "graph": "chain", "prog": "lA_lA", "cache": "empty", "n": 3}))[:1]
    dv, vi = _div(beh, "beh_good")
    if dv or vi:
        failures.append("a behaviour of the model replayed into the real loader was not followed: %r %r" % (dv, vi))
    bad = copy.deepcopy(beh)
    bad[0]["model_log"][3]["k"] = "loaded.get"
    if not _div(bad, "beh_event")[0]:
        failures.append("a behaviour whose third event differs from the real event was accepted as followed")
    bad = copy.deepcopy(beh)
    bad[0]["model_loads"][0]["none"] = True
    if not _div(bad, "beh_outcome")[0]:
        failures.append("a behaviour with another outcome than the real execution was accepted as followed")
    # 8. values: a stored value of another type than the dtype's
    from . import values, card
    with C.quiet():
        good = list(values.replay({"pre": {"d": "none", "n": 0}, "op": {"name": "ctor", "d": "int", "in": "int"}}))
    if _judge(good, "vgood", "JudgeValues"):
        failures.append("JudgeValues reports a violation on a good observation")
    bad = copy.deepcopy(good)
    bad[0]["post"]["vals"][0]["pt"] = "str"
    if not any(p == "C05" for p, c, k in _judge(bad, "vtype", "JudgeValues")):
        failures.append("an int Property holding a str was not rejected (C05/Conforms)")
    # 9. cardinality: a stored pair with min > max
    with C.quiet():
        good = list(card.replay({"pre": {"kind": "values", "card": [99, 99], "count": 2},
                                 "op": {"name": "set", "x": {"t": "pair", "a": 1, "b": 3, "l": False}}}))
    if _judge(good, "cgood", "JudgeCard"):
        failures.append("JudgeCard reports a violation on a good observation")
    bad = copy.deepcopy(good)
    bad[0]["post"]["card"] = [3, 1]
    if not any(p == "C09" for p, c, k in _judge(bad, "cnf", "JudgeCard")):
        failures.append("a cardinality with min > max was not rejected (C09/CardNF)")
    for f in failures:
        print("SELFTEST-FAILURE: " + f)
    print("selftest: %d corruption checks, %d failures" % (17, len(failures)))
    return 2 if failures else 0
