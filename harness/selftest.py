"""Self-test of the binding (./check selftest): a judge that accepts a corrupted observation, or a trace
spec that accepts a corrupted trace, is broken.  Exit 0 when every corruption is rejected and every good
input accepted, exit 2 otherwise (machinery failure, never a verdict about the library)."""
import os, json, copy
from . import common as C


def _tree_obs():
    from . import tree
    st = {"kind": {"d1": "doc", "s1": "sec", "s2": "sec", "p1": "prop", "n1": "unborn", "j1": "other"},
          "kids": {"d1": ["s1"], "s1": [], "s2": [], "p1": [], "n1": [], "j1": []},
          "plist": {h: [] for h in ("d1", "s1", "s2", "p1", "n1", "j1")},
          "par": {"d1": "none", "s1": "d1", "s2": "none", "p1": "none", "n1": "none", "j1": "none"},
          "name": {"d1": "-", "s1": "a", "s2": "a", "p1": "a", "n1": "-", "j1": "-"}}
    ops = [{"name": "append", "c": "d1", "x": "s2"},            # refused: name clash
           {"name": "append", "c": "s1", "x": "s2"},            # accepted
           {"name": "append", "c": "s1", "x": "p1"}]
    recs = []
    for op in ops:
        recs += list(tree.replay({"pre": st, "op": op}))
    return recs


def _judge(recs, name):
    d = C.fresh_dir(os.path.join(C.BUILD, "selftest_" + name))
    w = C.ObsWriter(os.path.join(d, "obs"))
    for r in recs:
        w.write(copy.deepcopy(r))
    w.close()
    v, _ = C.run_judges("JudgeTree.tla", "JudgeTree.cfg", w.files)
    return [(x[1], x[2], x[3]) for x in v if x[0] == "VIOL"]


def run():
    failures = []
    with C.quiet():
        good = _tree_obs()
    if _judge(good, "good"):
        failures.append("the judge reports a violation on good observations")
    # 1. a child listed twice
    bad = copy.deepcopy(good)
    bad[1]["post"]["kids"]["s1"] = ["s2", "s2"]
    v = _judge(bad, "dupchild")
    if not any(p == "C03" and k.endswith(":2") for p, c, k in v):
        failures.append("a child listed twice was not rejected (C03/WF): %r" % v)
    # 2. a refused step with a changed world
    bad = copy.deepcopy(good)
    assert bad[0]["out"] == "raised"
    bad[0]["post"]["par"]["s2"] = "d1"
    v = _judge(bad, "atomic")
    if not any(p == "C06" and k.endswith(":1") for p, c, k in v):
        failures.append("a refused step that changed the world was not rejected (C06/Atomic): %r" % v)
    # 3. two siblings of one name
    bad = copy.deepcopy(good)
    bad[1]["post"]["name"]["s2"] = "a"; bad[1]["post"]["kids"]["d1"] = ["s1", "s2"]; bad[1]["post"]["par"]["s2"] = "d1"; bad[1]["post"]["kids"]["s1"] = []
    v = _judge(bad, "unique")
    if not any(p == "C04" for p, c, k in v):
        failures.append("duplicate sibling names were not rejected (C04): %r" % v)
    # 4. projection without parent pointers: must be a machinery failure, not a pass
    bad = copy.deepcopy(good)
    del bad[1]["post"]["par"]
    try:
        _judge(bad, "nopar")
        failures.append("an observation without the 'par' field was accepted")
    except C.MachineryError:
        pass
    # 5. loader: a real trace is accepted, the same trace with one event altered is rejected
    from . import sched, loader
    wd = os.path.join(C.BUILD, "selftest_loader")
    r = sched.run("chain", "dA_lA", [], wd)
    ok, _ = loader.validate_trace("chain", "dA_lA", r["log"], wd)
    if not ok:
        failures.append("a real event log of the loader was rejected by LoaderTrace")
    log = list(r["log"])
    i = next(i for i, e in enumerate(log) if e[1] == "loading.pop")
    log[i] = (log[i][0], "loaded.set", log[i][2], log[i][3])
    ok, reached = loader.validate_trace("chain", "dA_lA", log, wd)
    if ok or reached != i + 1:
        failures.append("an altered event log was not rejected at the altered event (accepted=%s reached=%s expected=%s)" % (ok, reached, i + 1))
    for f in failures:
        print("SELFTEST-FAILURE: " + f)
    print("selftest: %d corruption checks, %d failures" % (6, len(failures)))
    return 2 if failures else 0
