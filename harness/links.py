"""C12 (and the 'unresolvable link or include' part of C06): finalize / clean / save on every
(tree, link placement) of the OdmlLinksGen model, once with links (paths in the same document)
and once with includes (URL#path of a file holding the same tree), followed by refused
assignments of references that cannot be resolved."""
import os, tempfile, shutil
from . import common as C
from . import world as W
from . import clone as CL
from .paths import tok_path
odml = W.odml
from odml import terminology
from odml.tools.odmlparser import ODMLWriter
from odml.tools.xmlparser import XMLReader

# in the include variant one name carries a '#' (the separator of URL and path)
INC_NAMES = {"a": "a", "b": "b#2", "c": "c"}
# in the link variant the two names of the model are made concrete in three ways: unrelated, one a proper
# beginning of the other, differing in case only
LINK_NAMES = [{"a": "a", "b": "b"}, {"a": "run1", "b": "run10"}, {"a": "Setup", "b": "setup"}]


def render(p, names=None):
    steps = [names.get(x, x) for x in p["steps"]] if names else p["steps"]
    s = "/".join(steps)
    return "/" + s if p["abs"] else s


def snap(objs, idtok):
    # uncertainty is compared as text: the XML reader hands numbers back as text, which is judged
    # by C01 (known finding there), not here
    from .docs import unc_text
    st, objs2 = W.project_full(objs, idtok)
    st = unc_text(st)
    st.pop("unctype", None)
    return st, objs2


def merged_of(objs):
    return sorted(h for h, o in objs.items() if o is not None and W.kind_of(o) == "sec" and o.is_merged)


def settle_loaders():
    for t in list(terminology.terminologies.loading.values()):
        try:
            t.join()
        except RuntimeError:
            pass


def replay(t):
    for r in run_case(t, False):
        yield r
    if all(e["form"] == "abs" for e in t["links"]):
        for r in run_case(t, True):
            yield r


def run_case(t, inc):
    st, links = t["st"], t["links"]
    salt = CL.salt_of(st)
    names = INC_NAMES if inc else LINK_NAMES[salt % 3]
    st = dict(st, name={h: names.get(n, n) for h, n in st["name"].items()})
    d = tempfile.mkdtemp(prefix="links", dir=os.environ.get("TMPDIR"))
    old_tmp = tempfile.tempdir
    tempfile.tempdir = d              # the library's download cache (tempdir/odml.cache) stays inside d
    try:
        url = None
        if inc:
            target = W.build(st, mk=lambda h, k, s: CL.mk(h, k, s, salt))["d1"]
            path = os.path.join(d, "target.xml")
            ODMLWriter("XML").write_file(target, path)
            url = "file://" + path
            # another file of the same base name elsewhere, loaded first (its copy sits in the download cache)
            os.makedirs(os.path.join(d, "decoy"))
            decoy = odml.Document(author="decoy")
            for top in target.sections:
                dc = odml.Section(name=top.name, type="t", parent=decoy)
                odml.Section(name="decoy-child", type="t", parent=dc)
            ODMLWriter("XML").write_file(decoy, os.path.join(d, "decoy", "target.xml"))
            terminology.load("file://" + os.path.join(d, "decoy", "target.xml"))
            settle_loaders()
        ref_of = {e["L"]: (url + "#" + render(e["path"], names) if inc else render(e["path"], names)) for e in links}

        def mk(h, k, s):
            if k == "sec" and h in ref_of:
                n = int(h[1:]) + salt
                kw = {"include": ref_of[h]} if inc else {"link": ref_of[h]}
                tgt = [e["T"] for e in links if e["L"] == h][0]
                # every third case: the linking Section is described with the same text as its target
                return odml.Section(name=s["name"][h], type=s["type"][h], definition="def-" + (tgt if salt % 3 == 1 else h),
                                    reference="ref-" + h if n % 2 else None, **kw)
            if k == "prop" and not inc:
                # some Properties have no name of their own (named by their id); not with includes: the included file is a second
                # build of the tree, whose unnamed objects carry other ids and therefore other names
                return CL.mk_salted(salt, unnamed=True)(h, k, s)
            return CL.mk(h, k, s, salt)

        objs = W.build(st, mk=mk)
        settle_loaders()
        idtok = W.IdTok()
        doc = objs["d1"]
        cur, objs = snap(objs, idtok)
        base = {"fam": "links", "src": "model", "links": links, "inc": inc, "x": "d1", "y": "d1"}

        def postlinks():
            pl = {}
            for e in links:
                if inc:
                    # an include is never rewritten: the same text designates the same target
                    same = objs[e["L"]].include == ref_of[e["L"]]
                    pl[e["L"]] = dict(e["path"], steps=[INC_NAMES.get(x, x) for x in e["path"]["steps"]]) if same else {"abs": False, "steps": ["?changed"], "prop": "none", "raw": repr(objs[e["L"]].include)}
                else:
                    lk = objs[e["L"]].link
                    pl[e["L"]] = tok_path(lk) if isinstance(lk, str) else {"abs": False, "steps": ["?none"], "prop": "none", "raw": repr(lk)}
            return pl

        def call(fn):
            try:
                fn()
                return "ok", "none"
            except Exception as e:
                return "raised", type(e).__name__

        for cycle in (1, 2):
            pre = cur
            out, exc = call(doc.finalize)
            settle_loaders()
            mid, objs = snap(objs, idtok)
            yield dict(base, t="finalize", cycle=cycle, out=out, exc=exc, pre=pre, post=mid, ref=pre, postlinks={})
            out, exc = call(doc.clean)
            post, objs = snap(objs, idtok)
            pl = postlinks()
            yield dict(base, t="clean", cycle=cycle, out=out, exc=exc, pre=mid, post=post, ref=pre, postlinks=pl)
            cur = post
            if cycle == 1:
                # a file saved after clean: the reference, none of the referenced content
                out, exc = "ok", "none"
                o2 = dict(objs)
                try:
                    text = ODMLWriter("XML").to_string(doc)
                    o2["r1"] = XMLReader(ignore_errors=False, show_warnings=False).from_string(text)
                    settle_loaders()
                except Exception as e:
                    out, exc = "raised", type(e).__name__
                    o2["r1"] = odml.Document()
                both, _ = snap(o2, idtok)
                yield dict(base, t="save", cycle=cycle, out=out, exc=exc, pre=post, post=both, ref=post, postlinks=pl, y="r1")

        # ---- C06: a reference that cannot be resolved is refused and changes nothing ----
        def bad(what):
            return (url + "#/no/such/section") if what == "include" else "/no/such/section"

        def refuse(h, what, state):
            pre, _ = snap(objs, idtok)
            mpre = merged_of(objs)
            out, exc = call(lambda: setattr(objs[h], what, bad(what)))
            settle_loaders()
            post, _ = snap(objs, idtok)
            return dict(base, t="refused_ref", cycle=3, what=what, state=state, out=out, exc=exc, pre=pre, post=post, ref=pre,
                        postlinks={}, x=h, merged_pre=mpre, merged_post=merged_of(objs))

        linkers = [e["L"] for e in links]
        plain = [h for h, k in st["kind"].items() if k == "sec" and h not in linkers and st["par"][h] != "none"]
        what = "include" if inc else "link"
        for h in plain[:2]:
            yield refuse(h, what, "plain")
        for h in linkers[:1]:
            yield refuse(h, what, "unresolved")
        call(doc.finalize)
        settle_loaders()
        for h in linkers:
            yield refuse(h, what, "resolved")
        call(doc.clean)
    finally:
        settle_loaders()
        terminology.terminologies.clear()
        terminology.terminologies.loading.clear()
        tempfile.tempdir = old_tmp
        shutil.rmtree(d, ignore_errors=True)
