"""C12: finalize / clean / save on every (tree, link placement) of the OdmlLinksGen model."""
from . import common as C
from . import world as W
from . import clone as CL
from .paths import tok_path
odml = W.odml
from odml.tools.odmlparser import ODMLWriter
from odml.tools.xmlparser import XMLReader


def render(p):
    s = "/".join(p["steps"])
    return "/" + s if p["abs"] else s


def snap(objs, idtok):
    return W.project_full(objs, idtok)


def replay(t):
    st, links = t["st"], t["links"]
    linkof = {e["L"]: render(e["path"]) for e in links}

    def mk(h, k, s):
        if k == "sec" and h in linkof:
            n = int(h[1:])
            return odml.Section(name=s["name"][h], type=s["type"][h], definition="def-" + h,
                                reference="ref-" + h if n % 2 else None, link=linkof[h])
        return CL.mk(h, k, s)

    objs = W.build(st, mk=mk)
    idtok = W.IdTok()
    doc = objs["d1"]
    cur, objs = snap(objs, idtok)
    ref = cur
    for cycle in (1, 2):
        pre = cur
        out, exc = "ok", "none"
        try:
            doc.finalize()
        except Exception as e:
            out, exc = "raised", type(e).__name__
        mid, objs = snap(objs, idtok)
        yield {"fam": "links", "src": "model", "t": "finalize", "cycle": cycle, "links": links, "out": out, "exc": exc,
               "pre": pre, "post": mid, "ref": pre, "postlinks": {}, "x": "d1", "y": "d1"}
        out, exc = "ok", "none"
        try:
            doc.clean()
        except Exception as e:
            out, exc = "raised", type(e).__name__
        post, objs = snap(objs, idtok)
        pl = {}
        for e in links:
            lk = objs[e["L"]].link
            pl[e["L"]] = tok_path(lk) if isinstance(lk, str) else {"abs": False, "steps": ["?none"], "prop": "none", "raw": repr(lk)}
        yield {"fam": "links", "src": "model", "t": "clean", "cycle": cycle, "links": links, "out": out, "exc": exc,
               "pre": mid, "post": post, "ref": pre, "postlinks": pl, "x": "d1", "y": "d1"}
        cur = post
        if cycle == 1:
            # a file saved after clean: the reference, none of the referenced content
            out, exc = "ok", "none"
            o2 = dict(objs)
            try:
                text = ODMLWriter("XML").to_string(doc)
                o2["r1"] = XMLReader(ignore_errors=False, show_warnings=False).from_string(text)
            except Exception as e:
                out, exc = "raised", type(e).__name__
                o2["r1"] = odml.Document()
            both, _ = snap(o2, idtok)
            yield {"fam": "links", "src": "model", "t": "save", "cycle": cycle, "links": links, "out": out, "exc": exc,
                   "pre": post, "post": both, "ref": post, "postlinks": pl, "x": "d1", "y": "r1"}
