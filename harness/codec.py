"""C01/C02, value text codec: every value list of the ValueCodec model through the real
XML writer/reader, the real reader on a file written by 'another tool', JSON and YAML."""
from lxml import etree as ET
from . import common as C
odml = C.import_odml()
from odml.tools.xmlparser import XMLWriter, XMLReader
from odml.tools.odmlparser import ODMLWriter, ODMLReader

CH = {"p": "x", "c": ",", "q": '"', "n": "\n", "l": "[", "r": "]", "s": " ", "m": "<", "u": "é", "a": "'"}
ALT = {"p": "Y", "m": "&", "u": "中"}          # second representative of a class
INV = {v: k for k, v in CH.items()}
INV.update({v: k for k, v in ALT.items()})


def conc(t, alt=False):
    return "".join((ALT.get(c, CH[c]) if alt else CH[c]) for c in t)


def tok(s):
    return [INV.get(ch, "?" + ch) for ch in s]


def toks(vals):
    return [tok(v) for v in vals]


def replay(t):
    vs = t["vs"]
    for alt in (False, True):
        vals = [conc(v, alt) for v in vs]
        doc = odml.Document()
        sec = odml.Section(name="s", type="t", parent=doc)
        prop = odml.Property(name="p", dtype="string", values=list(vals), parent=sec)
        stored = toks(prop.values)
        rec = {"fam": "formats", "src": "model", "t": "codec", "vs": vs, "alt": alt, "stored": stored,
               "wrote": "ok", "text": [], "back": [["?"]], "foreign": [["?"]], "json": [["?"]], "yaml": [["?"]], "exc": "none"}
        try:
            xml = str(XMLWriter(doc))
            root = ET.fromstring(xml.encode("utf-8"))
            el = root.find(".//property/value")
            rec["text"] = tok(el.text if el is not None and el.text is not None else "")
            try:
                d2 = XMLReader(ignore_errors=False, show_warnings=False).from_string(xml)
                rec["back"] = toks(d2.sections[0].properties[0].values)
            except Exception as e:
                rec["back"] = [["?raised:" + type(e).__name__]]
        except Exception as e:
            rec["wrote"], rec["exc"] = "raised", type(e).__name__
        if t["rep"]:
            root = ET.Element("odML", version="1.1")
            s = ET.SubElement(root, "section")
            ET.SubElement(s, "name").text = "s"
            ET.SubElement(s, "type").text = "t"
            p = ET.SubElement(s, "property")
            ET.SubElement(p, "name").text = "p"
            ET.SubElement(p, "type").text = "string"
            ET.SubElement(p, "value").text = conc(t["enc"], alt)
            try:
                d3 = XMLReader(ignore_errors=False, show_warnings=False).from_string(ET.tostring(root, encoding="unicode"))
                rec["foreign"] = toks(d3.sections[0].properties[0].values)
            except Exception as e:
                rec["foreign"] = [["?raised:" + type(e).__name__]]
        for fmt in ("JSON", "YAML"):
            try:
                text = ODMLWriter(fmt).to_string(doc)
                d4 = ODMLReader(fmt, show_warnings=False).from_string(text)
                rec[fmt.lower()] = toks(d4.sections[0].properties[0].values)
            except Exception as e:
                rec[fmt.lower()] = [["?raised:" + type(e).__name__]]
        yield rec
