"""C11: clone / export_leaf / independence of copies, on every tree of the generator."""
import zlib, random, datetime as dt
from . import common as C
from . import world as W
odml = W.odml

PVALS = [("int", [1, 2]), ("2-tuple", ["(1;2)", "(3;4)"]), ("string", ["x", "y,z"]), ("float", [1.5]),
         ("date", [dt.date(2020, 1, 2)]), ("boolean", [True, False]), ("string", []), (None, []), ("float", [0.0]),
         ("float", [float("nan"), 2.5])]          # NaN: a value that is not equal to itself


def salt_of(st):
    """a small number derived from the tree (names and shape), to vary the decoration between trees"""
    import json
    return sum(ord(c) for c in json.dumps(st["name"], sort_keys=True) + json.dumps(st["par"], sort_keys=True)) % 89


def mk_salted(salt, unnamed=False):
    def f(h, k, st):
        o = mk(h, k, st, salt)
        if unnamed and o is not None and k in ("sec", "prop") and ((int(h[1:]) if h[1:].isdigit() else 0) + salt) % 5 == 2:
            # an object without a name of its own: the library names it by its id
            o = mk(h, k, dict(st, name=dict(st["name"], **{h: None})), salt)
        return o
    return f


def mk(h, k, st, salt=0):
    """decorated objects: every attribute carries a value derived from the handle"""
    n = (int(h[1:]) if h[1:].isdigit() else 0) + salt
    if k == "doc":
        # a repository that only the Document defines is inherited by the Sections below, it is not an attribute of theirs
        return odml.Document(author="author-" + h, version="v" + h, date=dt.date(2020, 1, 1 + n % 27),
                             repository="file:///nonexistent/terminologies/doc-repo.xml" if salt % 2 else None)
    if k == "sec":
        return odml.Section(name=st["name"][h], type=st["type"][h], definition="def-" + h,
                            repository="file:///nonexistent/terminologies/sec-repo.xml" if n % 4 == 1 else None,
                            reference="ref-" + h if n % 2 else None,
                            sec_cardinality=(None, 5) if n % 2 else None, prop_cardinality=(1, 7) if n % 3 == 0 else None)
    if k == "prop":
        d, v = PVALS[n % len(PVALS)]
        return odml.Property(name=st["name"][h], dtype=d, values=v, unit="u" + h if n % 2 else None,
                             uncertainty=0.5 * n if n % 2 == 0 else None, definition="pdef-" + h,
                             reference=None, dependency=None, value_origin="orig-" + h if n % 2 else None,
                             val_cardinality=(1, 4) if n % 2 else None)
    return None


def snap(objs, idtok):
    st, objs2 = W.project_full(objs, idtok)
    return st, objs2


EDITS = ["rename", "rename_to_sibling", "rename_to_sibling", "set_def", "append_value", "setitem_value", "mutate_inner", "remove_child", "append_child",
         "append_prop", "create_prop", "set_card", "reorder", "set_values", "set_type"]


def apply_edit(o, kind, e, rng):
    if e == "rename":
        o.name = "renamed%d" % rng.randrange(1000)
    elif e == "rename_to_sibling" and kind in ("sec", "prop") and o.parent is not None:
        sibs = [x for x in (o.parent.sections if kind == "sec" else o.parent.properties) if x is not o]
        if sibs:
            o.name = sibs[0].name
    elif e == "set_def":
        o.definition = "changed%d" % rng.randrange(1000)
    elif e == "set_type" and kind == "sec":
        o.type = "othertype"
    elif e == "append_value" and kind == "prop":
        o.append(o.values[0])
    elif e == "setitem_value" and kind == "prop":
        o[0] = o.values[-1]
    elif e == "mutate_inner" and kind == "prop":
        v = o[0]                      # direct element access (documented way to get at a stored value)
        if isinstance(v, list):
            v.append("X")
    elif e == "set_values" and kind == "prop":
        o.values = o.values[:1]
    elif e == "remove_child" and kind in ("sec", "doc"):
        ch = list(o.sections) + (list(o.properties) if kind == "sec" else [])
        if ch:
            o.remove(ch[0])
    elif e == "append_child" and kind in ("sec", "doc"):
        o.append(odml.Section(name="added%d" % rng.randrange(1000), type="t"))
    elif e == "append_prop" and kind == "sec":
        o.append(odml.Property(name="addedp%d" % rng.randrange(1000), values=[1]))
    elif e == "create_prop" and kind == "sec":
        o.create_property("createdp%d" % rng.randrange(1000), values=["v"])
    elif e == "set_card":
        if kind == "prop":
            o.val_cardinality = (0, 9)
        elif kind == "sec":
            o.sec_cardinality = (0, 9)
    elif e == "reorder" and kind in ("sec", "prop") and o.parent is not None:
        o.reorder(0)


def subtree(o):
    out = [o]
    k = W.kind_of(o)
    if k in ("doc", "sec"):
        for s in o.sections:
            out += subtree(s)
    if k == "sec":
        out += list(o.properties)
    return out


def replay(st):
    mk = mk_salted(salt_of(st), unnamed=True)
    rng = random.Random(zlib.crc32(repr(sorted(st["name"].items())).encode()) & 0xffffff)
    live = [h for h, k in st["kind"].items() if k in ("doc", "sec", "prop")]
    for x in live:
        kind = st["kind"][x]
        flagsets = [(True, False), (True, True), (False, False), (False, True)] if kind != "prop" else [(True, False), (True, True)]
        for children, keep in flagsets:
            objs = W.build(st, mk=mk)
            idtok = W.IdTok()
            pre, objs = snap(objs, idtok)
            out, exc, y = "ok", "none", None
            try:
                if kind == "prop":
                    y = objs[x].clone(keep_id=keep)
                else:
                    y = objs[x].clone(children=children, keep_id=keep)
            except Exception as e:
                out, exc = "raised", type(e).__name__
            if y is not None:
                objs["y1"] = y
            post, objs = snap(objs, idtok)
            yield {"fam": "clone", "src": "model", "t": "clone", "x": x, "y": "y1", "children": children, "keep": keep,
                   "out": out, "exc": exc, "pre": pre, "post": post, "touched": []}
            if y is None or not children:
                continue
            # independence: edits applied to the copy, then to the original; nothing outside the edited tree may change
            for side in ("copy", "orig"):
                root = y if side == "copy" else objs[x]
                for step in range(2):
                    cand = subtree(root)
                    tgt = rng.choice(cand)
                    e = rng.choice(EDITS)
                    hid = {id(o): h for h, o in objs.items() if o is not None}
                    pre2, objs = snap(objs, idtok)
                    hid = {id(o): h for h, o in objs.items() if o is not None}
                    out2, exc2 = "ok", "none"
                    try:
                        apply_edit(tgt, W.kind_of(tgt), e, rng)
                    except Exception as ex:
                        out2, exc2 = "raised", type(ex).__name__
                    post2, objs = snap(objs, idtok)
                    yield {"fam": "clone", "src": "model", "t": "edit", "edit": e, "side": side, "x": x, "y": "y1",
                           "children": children, "keep": keep, "out": out2, "exc": exc2, "pre": pre2, "post": post2,
                           "touched": [hid[id(tgt)]]}
        # a Document in which a link has been resolved (and the linking Section edited afterwards) is copied like any other
        if kind == "doc":
            for keep in (True, False):
                objs = W.build(st, mk=mk)
                tops = list(objs[x].sections)
                pair = [(a, b) for a in tops for b in tops if a is not b and (len(b.sections) + len(b.properties))]
                if not pair:
                    break
                a, b = pair[salt_of(st) % len(pair)]
                try:
                    a.link = b.get_path()
                    gained = [c for c in list(a.properties) + list(a.sections) if c.name in [q.name for q in list(b.properties) + list(b.sections)]]
                    if keep and len(gained) > 1:
                        a.remove(gained[0])              # an edit after the link was resolved
                except Exception:
                    break
                idtok = W.IdTok()
                pre, objs = snap(objs, idtok)
                out, exc, y = "ok", "none", None
                try:
                    y = objs[x].clone(keep_id=keep)
                    objs["y1"] = y
                except Exception as e:
                    out, exc = "raised", type(e).__name__
                post, objs = snap(objs, idtok)
                yield {"fam": "clone", "src": "model", "t": "clone", "x": x, "y": "y1", "children": True, "keep": keep,
                       "out": out, "exc": exc, "pre": pre, "post": post, "touched": [], "linked": True}
        # export_leaf
        if kind in ("sec", "prop"):
            objs = W.build(st, mk=mk)
            idtok = W.IdTok()
            pre, objs = snap(objs, idtok)
            out, exc, y = "ok", "none", None
            try:
                y = objs[x].export_leaf()
            except Exception as e:
                out, exc = "raised", type(e).__name__
            yh = "y1"
            if y is not None:
                if y is objs[x]:
                    yh = x
                else:
                    objs["y1"] = y
            post, objs = snap(objs, idtok)
            yield {"fam": "clone", "src": "model", "t": "export", "x": x, "y": yh, "children": True, "keep": True,
                   "out": out, "exc": exc, "pre": pre, "post": post, "touched": []}
        # export_leaf inside a tree that has no Document on top (a detached copy of a top-level Section)
        if kind in ("sec", "prop") and st["par"][x] != "none":
            objs = W.build(st, mk=mk)
            idtok = W.IdTok()
            top = objs[x]
            chain = []
            while W.kind_of(top.parent) == "sec":
                chain.append(top); top = top.parent
            try:
                ctop = top.clone(keep_id=True)
            except Exception:
                ctop = None
            if ctop is not None and W.kind_of(top) == "sec":
                cobjs = {"c0": ctop}
                pre, cobjs = snap(cobjs, idtok)
                # the object in the copy that corresponds to x (same id, keep_id)
                cx = [h for h, o in cobjs.items() if o is not None and o.id == objs[x].id]
                if cx:
                    out, exc, r = "ok", "none", None
                    try:
                        r = cobjs[cx[0]].export_leaf()
                        if r is not cobjs[cx[0]]:
                            cobjs["y1"] = r
                    except Exception as e:
                        out, exc = "raised", type(e).__name__
                    post, cobjs = snap(cobjs, idtok)
                    yield {"fam": "clone", "src": "model", "t": "export", "x": cx[0], "y": "y1" if "y1" in cobjs else cx[0], "children": True, "keep": True,
                           "out": out, "exc": exc, "pre": pre, "post": post, "touched": []}
        # export_leaf of a keep_id copy placed below its original (the chain then carries one id twice)
        if kind == "sec":
            objs = W.build(st, mk=mk)
            idtok = W.IdTok()
            try:
                y = objs[x].clone(keep_id=True)
                y.name = "copy-below"
                objs[x].append(y)
                objs["y0"] = y
            except Exception:
                y = None
            if y is not None:
                pre, objs = snap(objs, idtok)
                out, exc, r = "ok", "none", None
                try:
                    r = y.export_leaf()
                    objs["y1"] = r
                except Exception as e:
                    out, exc = "raised", type(e).__name__
                post, objs = snap(objs, idtok)
                yield {"fam": "clone", "src": "model", "t": "export", "x": "y0", "y": "y1", "children": True, "keep": True,
                       "out": out, "exc": exc, "pre": pre, "post": post, "touched": []}
        # lists handed out / passed in
        if kind == "prop":
            objs = W.build(st, mk=mk)
            idtok = W.IdTok()
            p = objs[x]
            pre, objs = snap(objs, idtok)
            v = p.values
            v.append("junk")
            for el in v:
                if isinstance(el, list):
                    el.append("X")
            post, objs = snap(objs, idtok)
            yield {"fam": "clone", "src": "model", "t": "valmut", "which": "returned", "x": x, "y": x, "children": True,
                   "keep": True, "out": "ok", "exc": "none", "pre": pre, "post": post, "touched": []}
            L = [list(el) if isinstance(el, list) else el for el in p.values]
            try:
                p.values = L
                pre, objs = snap(objs, idtok)
                L.append(L[0])
                for el in L:
                    if isinstance(el, list):
                        el.append("X")
                post, objs = snap(objs, idtok)
                yield {"fam": "clone", "src": "model", "t": "valmut", "which": "passed", "x": x, "y": x, "children": True,
                       "keep": True, "out": "ok", "exc": "none", "pre": pre, "post": post, "touched": []}
            except Exception:
                pass
            # an empty list handed in and filled by the caller afterwards
            try:
                E = []
                p.values = E
                pre, objs = snap(objs, idtok)
                E.append("junk"); E.append(7)
                post, objs = snap(objs, idtok)
                yield {"fam": "clone", "src": "model", "t": "valmut", "which": "passed-empty", "x": x, "y": x, "children": True,
                       "keep": True, "out": "ok", "exc": "none", "pre": pre, "post": post, "touched": []}
            except Exception:
                pass
