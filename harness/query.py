"""C20: every query of the OdmlQueryGen model run by FuzzyFinder (string and dictionary way) on the
RDF export of a few document sets; the output text is parsed into (combination, rows) blocks."""
import re, json
from . import common as C
from . import world as W
odml = W.odml
from odml.tools.rdf_converter import RDFWriter
from odml.rdf.fuzzy_finder import FuzzyFinder
from odml.format import Format

NS = str(Format.namespace())
REV = {"hasAuthor": ("Doc", "author"), "hasDocVersion": ("Doc", "version"), "hasName": (None, "name"), "hasType": (None, "type"),
       "hasDefinition": (None, "definition"), "hasReference": (None, "reference"), "hasUnit": ("Prop", "unit"), "hasDtype": ("Prop", "dtype"),
       "hasValueOrigin": ("Prop", "value_origin"), "hasUncertainty": ("Prop", "uncertainty"), "hasDate": ("Doc", "date")}
VAR = {"d": "Doc", "s": "Sec", "p": "Prop"}
QATTRS = {"doc": ("author", "version"), "sec": ("name", "type", "definition", "reference"), "prop": ("name", "unit", "dtype", "definition", "reference", "value_origin")}
_WORLDS = None


def worlds():
    global _WORLDS
    if _WORLDS is not None:
        return _WORLDS
    out = []
    # world 1: one document
    d1 = odml.Document(author="alice", version="v1")
    s1 = odml.Section(name="a", type="t", definition="def one", parent=d1)
    odml.Property(name="a", dtype="int", values=[1], unit="mV", parent=s1)
    odml.Property(name="b", dtype="string", values=["x"], value_origin="orig.dat", definition="def one", parent=s1)
    s2 = odml.Section(name="b", type="u", definition="one", reference="ref1", parent=d1)
    odml.Property(name="a", dtype="string", values=["y"], unit="mV", parent=s2)
    s3 = odml.Section(name="b", type="t", parent=s1)
    odml.Property(name="a", dtype="int", values=[2], parent=s3)
    odml.Property(name="zz", dtype="int", values=[3], unit="mV", value_origin="orig.dat", parent=s3)
    out.append([d1])
    # world 2: two documents
    d2 = odml.Document(author="zz", version="v1")
    t1 = odml.Section(name="a", type="u", definition="def one", parent=d2)
    odml.Property(name="zz", dtype="string", values=["q"], value_origin="other.dat", definition="one", parent=t1)
    t2 = odml.Section(name="t", type="t", parent=d2)          # a name that is also a type elsewhere
    odml.Property(name="a", dtype="int", values=[5], unit="mV", parent=t2)
    d3 = odml.Document(author="alice")
    u1 = odml.Section(name="b", type="t", parent=d3)
    odml.Property(name="a", dtype="string", values=["r"], parent=u1)
    out.append([d2, d3])
    res = []
    for docs in out:
        objs = {"d%d" % (i + 1): d for i, d in enumerate(docs)}
        st, objs = W.project_full(objs, W.IdTok())
        st["qattrs"] = {}
        for h, o in objs.items():
            k = st["kind"][h]
            st["qattrs"][h] = {a: str(getattr(o, a)) for a in QATTRS.get(k, ()) if getattr(o, a) is not None}
        g = RDFWriter(docs, rdf_subclassing=False).convert_to_rdf()
        byid = {str(o.id): h for h, o in objs.items()}
        res.append((st, g, byid))
    # world 3: the documents of world 1 exported by a writer whose sub-classing is switched off but which was given a
    # custom sub-class table (the table may then have no effect: Sections stay odml:Section and are found as such)
    st, g, byid = res[0]
    g3 = RDFWriter(out[0], rdf_subclassing=False, custom_subclasses={"t": "TypeT", "u": "TypeU"}).convert_to_rdf()
    res.append((st, g3, byid))
    _WORLDS = res
    return res


def q_string(q, rev=False):
    """rev: the kinds and, within a kind, the attributes in the opposite order"""
    order = (("Doc", "doc"), ("Sec", "sec"), ("Prop", "prop"))
    if rev:
        order = order[::-1]
    if q["mode"] == "match":
        parts = []
        for kind, word in order:
            ps = sorted([p for p in q["pairs"] if p["kind"] == kind], key=lambda p: p["attr"], reverse=rev)
            if ps:
                parts.append("%s(%s)" % (word, ", ".join("%s:%s" % (p["attr"], p["val"]) for p in ps)))
        return " ".join(parts)
    parts = []
    for kind, word in order:
        at = sorted((a["attr"] for a in q["attrs"] if a["kind"] == kind), reverse=rev)
        if at:
            parts.append("%s(%s)" % (word, ", ".join(at)))
    return "FIND %s HAVING %s" % (" ".join(parts), ", ".join(sorted(q["terms"], reverse=rev)))


def q_dict(q):
    d = {}
    if q["mode"] == "match":
        for p in sorted(q["pairs"], key=lambda p: (p["kind"], p["attr"])):
            d.setdefault(p["kind"], []).append((p["attr"], p["val"]))
    else:
        for a in sorted(q["attrs"], key=lambda a: (a["kind"], a["attr"])):
            d.setdefault(a["kind"], []).append(a["attr"])
        d["Search"] = sorted(q["terms"])
    return d


def parse_output(text, byid):
    blocks = []
    for chunk in text.split("SELECT * WHERE {\n")[1:]:
        body, _, rest = chunk.partition("}\n")
        pairs, kinds = [], set()
        for line in body.splitlines():
            m = re.match(r'\?([dsp]) odml:(\w+) "(.*)" \.$', line)
            if m and m.group(2) in REV:
                kind = VAR[m.group(1)]
                pairs.append({"kind": kind, "attr": REV[m.group(2)][1], "val": m.group(3)})
                kinds.add(kind)
        vars_ = [v for v, need in (("d", "Doc" in kinds or "Sec" in kinds), ("s", "Sec" in kinds or "Prop" in kinds), ("p", "Prop" in kinds)) if need]
        lines = [l for l in rest.splitlines() if l.strip()]
        rows = []
        label = {"d": "Document", "s": "Section", "p": "Property"}
        for i in range(0, len(lines), max(1, len(vars_))):
            grp = lines[i:i + len(vars_)]
            row = {"d": "-", "s": "-", "p": "-"}
            for v, l in zip(vars_, grp):
                uri = l.split(": ", 1)[1] if ": " in l else "?"
                row[v] = byid.get(uri[len(NS):], "?" + uri[-8:]) if l.startswith(label[v]) else "?misaligned"
            rows.append(row)
        blocks.append({"pairs": pairs, "rows": rows})
    return blocks


FINDERS = {}          # one finder per graph (a finder keeps the first graph it was given)


def replay(q):
    qd = q_dict(q)            # one parameter dictionary used for the searches on both graphs, as a caller would
    for wi, (st, g, byid) in enumerate(worlds()):
        # "+value": the same query with a Property value list added (prop(.., value:[20, 25]) / ('value', ['20', '25'])): no
        # Property of the worlds holds these values, so the combinations with a hit - and the answer - are those of the query itself
        for way in ("string", "string-rev", "dict") + (("string+value", "dict+value") if q["mode"] == "match" and wi == 0 else ()):
            rec = {"fam": "query", "src": "model", "world": wi, "way": way, "mode": q["mode"], "w": st, "out": "ok", "exc": "none", "blocks": []}
            if q["mode"] == "match":
                rec["pairs"] = q["pairs"]
                rec["attrs"], rec["terms"] = [], []
            else:
                rec["pairs"] = []
                rec["attrs"], rec["terms"] = q["attrs"], q["terms"]
            try:
                # the dictionary searches on one graph share one finder object (a caller keeps its finder), the string ones get a new one
                ff = FINDERS.setdefault(wi, FuzzyFinder()) if way == "dict" else FuzzyFinder()
                if way == "string+value":
                    qs = q_string(q)
                    qs = qs.replace("prop(", "prop(value:[20, 25], ") if "prop(" in qs else qs + " prop(value:[20, 25])"
                    text = ff.find(mode="match", graph=g, q_str=qs)
                elif way == "dict+value":
                    qv = {k: list(v) for k, v in q_dict(q).items()}
                    qv.setdefault("Prop", []).append(("value", ["20", "25"]))
                    text = ff.find(mode="match", graph=g, q_params=qv)
                elif way.startswith("string"):
                    text = ff.find(mode=q["mode"], graph=g, q_str=q_string(q, rev=(way == "string-rev")))
                else:
                    text = ff.find(mode=q["mode"], graph=g, q_params=qd)
                rec["blocks"] = parse_output(text, byid)
            except Exception as e:
                rec["out"], rec["exc"] = "raised", type(e).__name__
            yield rec
