"""Family 'save' (C07)."""
import os
from . import common as C
from . import par
from .check_values import dedupe


def observe(tier):
    d = C.fresh_dir(os.path.join(C.BUILD, "save"))
    g = C.TlcGen("OdmlSave.tla", "MC_Save.cfg", "save", workers=2)
    n, files = par.replay_stream(dedupe(g.chunks(50)), "harness.save", os.path.join(d, "R"), shard=5000)
    return {"judge": [("JudgeSave.tla", "JudgeSave.cfg", files)],
            "tlc": [{"cfg": "MC_Save.cfg", "cmd": g.describe(), "states": g.stats["distinct"], "transitions": g.n_lines, "wall_s": round(g.wall, 1)}],
            "records": {"R": n},
            "explanation": "the full product validity class x serialisation fault x format (XML, JSON, YAML, RDF xml/turtle/nt/n3/json-ld/bogus) x target file "
                           "absent/holding earlier data x entry point x XML writer option, each executed in a private directory; the bytes of the target before/after "
                           "are classified (absent / old / new / damaged) and judged by TLC (JudgeSave)",
            "assumptions": ["one representative document per validity class and per fault"]}
