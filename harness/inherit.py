"""Beyond the listed properties (X01): repository inheritance and terminology equivalents on every tree of the
OdmlPathsGen model; the terminologies are documents placed into the loader's table (no network)."""
import json
from . import common as C
from . import world as W
from .clone import salt_of
odml = W.odml
from odml import terminology

URLS = ["http://terminology.invalid/A.xml", "http://terminology.invalid/B.xml", "http://terminology.invalid/notloaded.xml"]
TYPES = ["t", "u", "v"]
_TERMS = None


def terms():
    """two terminology documents: A has type t at the top and nested, u nested; B has t only at depth 2 and no u"""
    global _TERMS
    if _TERMS is None:
        a = odml.Document(author="term A")
        a1 = odml.Section(name="first-t", type="t", parent=a)
        odml.Property(name="a", values=[1], parent=a1); odml.Property(name="ab", values=[1], parent=a1)
        a2 = odml.Section(name="nested-u", type="u", parent=a1)
        odml.Property(name="a", values=[2], parent=a2)
        a3 = odml.Section(name="second-t", type="t", parent=a)
        odml.Property(name="abc", values=[3], parent=a3)
        b = odml.Document(author="term B")
        b1 = odml.Section(name="outer", type="w", parent=b)
        b2 = odml.Section(name="deep-t", type="t", parent=b1)
        odml.Property(name="abc", values=[1], parent=b2)
        _TERMS = {URLS[0]: a, URLS[1]: b}
    return _TERMS


def term_world(doc):
    st, objs = W.project({"t": doc}, docof=False)
    st["type"] = {h: (o.type if W.kind_of(o) == "sec" else "-") for h, o in objs.items()}
    st["name"] = {h: (str(o.name) if W.kind_of(o) in ("sec", "prop") else "-") for h, o in objs.items()}
    return st, {id(o): h for h, o in objs.items()}


def replay(st):
    salt = salt_of(st)
    T = terms()
    for u, d in T.items():
        terminology.terminologies[u] = d
    tw, tid = {}, {}
    for u, d in T.items():
        tw[u], tid[u] = term_world(d)
    st = dict(st)
    st["type"] = {h: (TYPES[(int(h[1:]) + salt) % 3] if k == "sec" else "-") for h, k in st["kind"].items()}
    # own repositories on some objects: none / A / B / a url that is not loaded (and cannot be: no network)
    st["repo"] = {}
    for h, k in st["kind"].items():
        n = (int(h[1:]) if h[1:].isdigit() else 0) + salt
        st["repo"][h] = "none"
        if k == "doc" and n % 3:
            st["repo"][h] = URLS[n % 2]
        elif k == "sec" and n % 4 == 1:
            st["repo"][h] = URLS[(n // 4) % 2]

    def mk(h, k, s):
        if k == "doc":
            return odml.Document(author="x")
        if k == "sec":
            return odml.Section(name=s["name"][h], type=s["type"][h])
        if k == "prop":
            return odml.Property(name=s["name"][h], values=[1])
        return None

    objs = W.build(st, mk=mk)
    for h, o in objs.items():
        if st["repo"].get(h, "none") != "none":
            o._repository = st["repo"][h]          # stored only: the public setter would start a download
    repos, equiv = {}, {}
    for h, o in objs.items():
        k = st["kind"][h]
        if k in ("doc", "sec"):
            try:
                r = o.get_repository()
                repos[h] = "none" if r is None else str(r)
            except Exception as e:
                repos[h] = "raised:" + type(e).__name__
        else:
            repos[h] = "none"
        try:
            e = o.get_terminology_equivalent()
            if e is None:
                equiv[h] = {"u": "none", "h": "none"}
            else:
                hit = [(u, tid[u][id(e)]) for u in tid if id(e) in tid[u]]
                equiv[h] = {"u": hit[0][0], "h": hit[0][1]} if hit else {"u": "?foreign", "h": "?"}
        except Exception as ex:
            equiv[h] = {"u": "raised:" + type(ex).__name__, "h": "?"}
    yield {"fam": "inherit", "src": "model", "st": st, "terms": tw, "repos": repos, "equiv": equiv}
