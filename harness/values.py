"""C05 (and the value part of C06): replay of OdmlValues transitions into real Properties."""
import datetime as dt, random, zlib
from . import common as C
odml = C.import_odml()
from odml import dtypes

D = dt.date(2020, 1, 2); T = dt.time(12, 30, 45); DT = dt.datetime(2020, 1, 2, 12, 30, 45)
CLASSES = {
    "int": 42, "int0": 0, "negint": -7, "float_i": 3.0, "float_f": 3.7, "true": True, "false": False,
    "str": "hello", "text": "line1\nline2", "s_int": "12", "s_float": "3.7", "s_bool": "true",
    "s_date": "2021-03-04", "s_time": "01:02:03", "s_datetime": "2021-03-04 01:02:03",
    "date": D, "time": T, "time_us": dt.time(12, 30, 45, 123456), "datetime": DT,
    "datetime_us": dt.datetime(2020, 1, 2, 12, 30, 45, 123456),
    "tuple2": "(7;8)", "tuple3": "(7;8;9)", "bracketed": "[a, b]", "dict": {"a": 1},
    "datetime_tz": dt.datetime(2020, 1, 2, 12, 30, 45, tzinfo=dt.timezone(dt.timedelta(hours=2))),
    "time_tz": dt.time(12, 30, 45, tzinfo=dt.timezone(dt.timedelta(hours=-5))), "inf": float("inf"), "bigint": 2 ** 70,
    "s_int_ws": " 12 ", "s_float_exp": "1e3",
    "s_date_early": "0476-09-04", "date_early": dt.date(476, 9, 4), "s_datetime_early": "0987-06-05 01:02:03", "datetime_early": dt.datetime(987, 6, 5, 1, 2, 3), "tuple2e": "(1;)", "tuple3e": "(x;;)",      # tuples with empty components
    "none": None, "empty": "", "elist": [], "edict": {},
    "list_int": [5, 6], "list_str": ["x", "y"], "list_mixed": [1, "a"], "list_s_int": ["5", "6"],
    "list_tuple2": ["(1;2)", "(3;4)"], "list_tuple2p": ["(1;2)", "(f(x);3)"], "list_tuple23": ["(1;2)", "(1;2;3)"],
}
NATIVE = {
    "string": ["a", "b", "c"], "text": ["a\nb", "c", "d"], "url": ["http://a", "http://b", "http://c"],
    "person": ["P One", "P Two", "P Three"], "int": [1, 2, 3], "float": [1.5, 2.5, 3.25],
    "boolean": [True, False, True], "date": [dt.date(2019, 1, 1), dt.date(2019, 1, 2), dt.date(2019, 1, 3)],
    "time": [dt.time(1, 0, 0), dt.time(2, 0, 0), dt.time(3, 0, 0)],
    "datetime": [dt.datetime(2019, 1, 1, 1, 0, 0), dt.datetime(2019, 1, 2, 1, 0, 0), dt.datetime(2019, 1, 3, 1, 0, 0)],
    "2-tuple": ["(1;2)", "(3;4)", "(5;6)"], "3-tuple": ["(1;2;3)", "(4;5;6)", "(7;8;9)"],
}


def conc(c):
    if c in ("prop_int", "prop_unit"):
        return odml.Property(name="src", dtype="int", values=[5, 6], unit="mV" if c == "prop_unit" else None)
    if c == "prop_unit_str":
        return odml.Property(name="src", dtype="string", values=["30", "n.a."], unit="mV")
    if c == "prop_str":
        return odml.Property(name="src", dtype="string", values=["x", "y"])
    v = CLASSES[c]
    return list(v) if isinstance(v, list) else (dict(v) if isinstance(v, dict) else v)


def conc_dtype(d, k=0):
    if d == "none":
        return None
    if d in ("2-tuple", "3-tuple", "foo"):
        return d
    # canonical name or the DType member (both spellings are in the quantifier)
    return d if k % 2 == 0 else getattr(odml.DType, d)


def build(s, k=0):
    if s["d"] == "none":
        return odml.Property(name="p")
    return odml.Property(name="p", dtype=conc_dtype(s["d"], k), values=NATIVE[s["d"]][:s["n"]])


def facts(p, probe=True):
    if p is None:
        return {"dtype": "absent", "vals": [], "selfassign": "same", "n": 0, "unit": "none"}
    d = p.dtype
    ds = "none" if d is None else str(d)
    vals = []
    for v in list(p._values) if False else p.values:
        f = {"pt": type(v).__name__, "n": 0, "allstr": True, "rt": True, "us": True, "r": repr(v)}
        if isinstance(v, list):
            f["n"] = len(v)
            f["allstr"] = all(type(x) is str for x in v)
        if isinstance(v, (dt.datetime, dt.time)) and not isinstance(v, dt.date.__class__):
            f["us"] = getattr(v, "microsecond", 0) == 0
        try:
            back = dtypes.get(dtypes.set(v, d), d)
            # the text the writers produce (str of the value; "(a;b)" for a tuple), read back
            text = "(" + ";".join(v) + ")" if isinstance(v, list) else str(v)
            back2 = dtypes.get(text, d)
            f["rt"] = (back == v) and (type(back) is type(v)) and (back2 == v) and (type(back2) is type(v))
        except Exception:
            f["rt"] = False
        vals.append(f)
    sa = "same"
    if probe:
        before = [(type(v).__name__, repr(v)) for v in p.values]
        try:
            p.values = p.values
            after = [(type(v).__name__, repr(v)) for v in p.values]
            sa = "same" if (after == before and (p.dtype is None and d is None or str(p.dtype) == ds)) else "changed"
        except Exception:
            sa = "raised"
    return {"dtype": ds, "vals": vals, "selfassign": sa, "n": len(vals), "unit": "none" if p.unit is None else repr(p.unit)}


def apply_op(p, op, k=0):
    n = op["name"]
    if n == "set_values":
        p.values = conc(op["in"])
    elif n == "append":
        p.append(conc(op["in"]), strict=op["strict"])
    elif n == "extend":
        p.extend(conc(op["in"]), strict=op["strict"])
    elif n == "insert":
        p.insert(op["i"], conc(op["in"]), strict=op["strict"])
    elif n == "setitem":
        p[op["i"]] = conc(op["in"])
    elif n == "remove":
        p.remove(conc(op["in"]))
    elif n == "set_dtype":
        p.dtype = conc_dtype(op["d"], k)
    elif n == "merge":
        other = build({"d": op["d"], "n": op["n"]}, k + 1)
        p.merge(other, strict=op["strict"])
    elif n == "clone":
        return p.clone()
    else:
        raise C.MachineryError("unknown op " + n)
    return p


def one(p, op, k):
    pre = facts(p, probe=False)
    out, exc, q = "ok", "none", p
    try:
        if op["name"] == "ctor":
            q = None
            q = odml.Property(name="p", dtype=conc_dtype(op["d"], k), values=conc(op["in"]))
        else:
            q = apply_op(p, op, k)
    except C.MachineryError:
        raise
    except Exception as e:
        out, exc = "raised", type(e).__name__
    post = facts(q)
    rec = {"fam": "values", "src": "model", "op": op, "out": out, "exc": exc, "pre": pre, "post": post}
    if op["name"] == "clone" and q is not None and q is not p:
        rec["orig_after"] = facts(p, probe=False)
    return rec, q


def replay(t):
    k = zlib.crc32(repr(sorted(t["op"].items())).encode()) & 1
    p = build(t["pre"], k)
    got = facts(p, probe=False)
    if got["dtype"] != t["pre"]["d"] or got["n"] != t["pre"]["n"]:
        raise C.MachineryError("could not build pre-state %r: %r" % (t["pre"], got))
    rec, _ = one(p, t["op"], k)
    rec["cfg"] = "plain"
    yield rec
    # the same step in another configuration: the Property carries a values cardinality that its number of values
    # violates (a cardinality is never enforced) and the process turns warnings into errors (python -W error); insert is
    # left out because it warns by design about an index beyond the end
    if t["op"]["name"] not in ("insert", "ctor"):
        import warnings
        p = build(t["pre"], k)
        p.val_cardinality = (t["pre"]["n"] + 2, None)
        with warnings.catch_warnings():
            warnings.simplefilter("error")
            rec, _ = one(p, t["op"], k)
        rec["cfg"] = "cardinality-violated,warnings-as-errors"
        yield rec
    # the same step on a Property without dtype whose first assignment was refused before (a refused call changes nothing,
    # so the step has to go as from the untouched Property)
    if t["pre"]["d"] == "none" and t["op"]["name"] != "ctor":
        for bad in ([1, "x"], [True, "maybe"], [1.5, "x"]):
            p = build(t["pre"], k)
            try:
                p.values = list(bad)
                continue                     # accepted (not the situation meant here)
            except Exception:
                pass
            rec, _ = one(p, t["op"], k)
            rec["cfg"] = "after-a-refused-first-assignment"
            yield rec


# ---- H-binding: random operation sequences on ONE evolving Property ----
def history_cases(n_hist, depth, rng):
    for i in range(n_hist):
        yield [{"hist": i, "seed": rng.randrange(1 << 30), "depth": depth}]


SC = ["int", "int0", "negint", "float_i", "float_f", "true", "false", "str", "text", "s_int", "s_float", "s_bool",
      "s_date", "s_time", "s_datetime", "date", "time", "time_us", "datetime", "datetime_us", "tuple2", "tuple3",
      "bracketed", "dict", "none", "empty", "elist", "edict", "datetime_tz", "time_tz", "inf", "bigint", "s_int_ws", "s_float_exp", "tuple2e", "tuple3e",
      "s_date_early", "date_early", "s_datetime_early", "datetime_early"]
LC = ["list_int", "list_str", "list_mixed", "list_s_int", "list_tuple2", "list_tuple2p", "list_tuple23"]
PC = ["prop_int", "prop_str", "prop_unit", "prop_unit_str"]
DTS = list(NATIVE)


def replay_history(t):
    rng = random.Random(t["seed"])
    p = None
    for i in range(t["depth"]):
        if p is None:
            op = {"name": "ctor", "d": rng.choice(DTS + ["none", "none", "foo"]), "in": rng.choice(SC + LC)}
        else:
            nm = rng.choice(["set_values", "append", "extend", "insert", "setitem", "remove", "set_dtype", "merge", "clone",
                             "append", "extend", "set_dtype"])
            if nm == "set_values":
                op = {"name": nm, "in": rng.choice(SC + LC)}
            elif nm in ("append", "extend"):
                op = {"name": nm, "in": rng.choice(SC + LC + (PC if nm == "extend" else [])), "strict": rng.random() < 0.5}
            elif nm == "insert":
                op = {"name": nm, "i": rng.choice([0, 1, 5]), "in": rng.choice(SC), "strict": rng.random() < 0.5}
            elif nm == "setitem":
                op = {"name": nm, "i": rng.choice([0, 1, 5]), "in": rng.choice(SC)}
            elif nm == "remove":
                op = {"name": nm, "in": rng.choice(["int", "str", "float_f"])}
            elif nm == "set_dtype":
                op = {"name": nm, "d": rng.choice(DTS + ["foo", "none"])}
            elif nm == "merge":
                op = {"name": nm, "d": rng.choice(DTS), "n": rng.randrange(3), "strict": rng.random() < 0.5}
            else:
                op = {"name": "clone"}
        rec, q = one(p, op, i)
        rec["src"] = "hist"
        rec["hist"], rec["step"] = t["hist"], i
        yield rec
        p = q
