"""Construction of real odml objects for an abstract world, and the TOTAL projection of
real objects back to an abstract world (see spec/OdmlWorld.tla for the vocabulary).

The projection never assumes well-formedness: child lists, parent pointers and names are
read independently of each other through the public API, objects the harness did not
create are discovered by closure and get handles z1, z2, ...
"""
import sys
from . import common as C

odml = C.import_odml()
from odml.doc import BaseDocument
from odml.section import BaseSection
from odml.property import BaseProperty

NAMES = {"a": "alpha", "b": "beta", "c": "gamma"}
INV_NAMES = {v: k for k, v in NAMES.items()}
HANG = "hang"


class Junk(str):
    """A non-odML object handed to the API (kind "other")."""


def kind_of(o):
    if isinstance(o, Junk):
        return "other"
    if isinstance(o, BaseDocument):
        return "doc"
    if isinstance(o, BaseSection):
        return "sec"
    if isinstance(o, BaseProperty):
        return "prop"
    return None


def conc_name(tok):
    """name token -> constructor argument (None makes the library use the id)."""
    if tok.startswith("#") or tok in ("none", "empty", "-"):
        return None
    return NAMES[tok]


def build(st, mk=None):
    """Create real objects for world `st` by the trusted path: fresh detached objects,
    append of a detached non-clashing child, top-down."""
    objs = {}
    for h, k in st["kind"].items():
        if mk is not None:
            o = mk(h, k, st)
            if o is not None or k == "unborn":
                objs[h] = o
                continue
        if k == "doc":
            objs[h] = odml.Document()
        elif k == "sec":
            # two types (the structural rules look at names only; same-named Sections of another type exist)
            objs[h] = odml.Section(name=conc_name(st["name"][h]), type="t" if (h[1:].isdigit() and int(h[1:]) % 2) else "u")
        elif k == "prop":
            objs[h] = odml.Property(name=conc_name(st["name"][h]), values=[1])
        elif k == "other":
            objs[h] = Junk("/not/an/odml/object")
        else:
            objs[h] = None

    def attach(c):
        for s in st["kids"][c]:
            objs[c].append(objs[s])
            attach(s)
        for p in st["plist"][c]:
            objs[c].append(objs[p])

    for h, k in st["kind"].items():
        if k == "doc" or (k == "sec" and st["par"][h] == "none"):
            attach(h)
    return objs


class _Budget(Exception):
    pass


def with_budget(fn, steps=20000):
    """Run fn() under a step budget (line events); returns HANG when it is exhausted."""
    cnt = [0]

    def tr(frame, ev, arg):
        cnt[0] += 1
        if cnt[0] > steps:
            raise _Budget()
        return tr
    old = sys.gettrace()
    sys.settrace(tr)
    try:
        return fn()
    except _Budget:
        return HANG
    finally:
        sys.settrace(old)


def _chain_is_finite(o, limit=64):
    seen = set()
    cur = o
    while cur is not None and kind_of(cur) in ("sec", "prop"):
        if id(cur) in seen or len(seen) > limit:
            return False
        seen.add(id(cur))
        cur = cur.parent
    return True


def name_token(o, h, idmap=None, birth=None):
    n = o.name
    if n is None or n == "":
        return "empty"
    if birth is not None and n in birth:      # named by an id string the registry knows: always the same token for the same string
        return birth[n]
    if idmap and n in idmap:          # named by an id: "#" + first handle carrying that id
        return "#" + idmap[n]
    if n == o.id:
        return "#" + h
    return INV_NAMES.get(n, "?" + str(n))


def project(objs, extra=None, docof=True, birth=None):
    """objs: handle -> object (None for unborn).  Returns (st, objs2) where objs2 also
    contains the discovered objects."""
    objs = dict(objs)
    hid = {id(o): h for h, o in objs.items() if o is not None}
    work = [o for o in objs.values() if o is not None]
    nz = [sum(1 for x in objs if x.startswith("z"))]

    def handle(o):
        if o is None:
            return "none"
        h = hid.get(id(o))
        if h is None:
            if kind_of(o) is None:
                return "?" + type(o).__name__
            nz[0] += 1
            h = "z%d" % nz[0]
            hid[id(o)] = h
            objs[h] = o
            work.append(o)
        return h

    raw = {}
    while work:
        o = work.pop(0)
        h = hid[id(o)]
        k = kind_of(o)
        r = {"kind": k, "kids": [], "plist": [], "par": "none", "name": "-"}
        if k in ("doc", "sec"):
            r["kids"] = [handle(x) for x in list.__iter__(o.sections)]
        if k == "sec":
            r["plist"] = [handle(x) for x in list.__iter__(o.properties)]
        if k in ("sec", "prop"):
            r["par"] = handle(o.parent)
        raw[h] = r
    idmap = {}
    for hh in sorted(objs, key=lambda x: (len(x), x)):
        oo = objs[hh]
        if oo is not None and kind_of(oo) in ("doc", "sec", "prop"):
            idmap.setdefault(oo.id, hh)
    if birth is not None:
        # registry id string -> handle of the object first seen with it (one id per handle: the one it was born with)
        # every id string gets one token for good when it is first seen: "#h" for the first id seen on handle h (the id it
        # was born with), "#h~2", ... for ids h is given later; equal strings <-> equal tokens, stable over a history
        cnt = birth.setdefault("\0count", {})
        for hh in sorted(objs, key=lambda x: (len(x), x)):
            oo = objs[hh]
            if oo is not None and kind_of(oo) in ("doc", "sec", "prop") and oo.id not in birth:
                cnt[hh] = cnt.get(hh, 0) + 1
                birth[oo.id] = "#" + hh if cnt[hh] == 1 else "#%s~%d" % (hh, cnt[hh])
    for hh, oo in objs.items():
        if oo is not None and kind_of(oo) in ("sec", "prop"):
            raw[hh]["name"] = name_token(oo, hh, idmap, birth)
    st = {"kind": {}, "kids": {}, "plist": {}, "par": {}, "name": {}}
    if docof:
        st["docof"] = {}
    if birth is not None:
        # idn[x]: the token of the name x gets when its name is cleared (its current id, as a name token)
        st["idn"] = {}
        class _N(object):
            pass
        for hh, oo in objs.items():
            if oo is not None and kind_of(oo) in ("sec", "prop"):
                fake = _N(); fake.name = oo.id; fake.id = oo.id
                st["idn"][hh] = name_token(fake, hh, idmap, birth)
            else:
                st["idn"][hh] = "-"
    for h, o in list(objs.items()):
        if o is None:
            st["kind"][h] = "unborn"; st["kids"][h] = []; st["plist"][h] = []
            st["par"][h] = "none"; st["name"][h] = "-"
            if docof:
                st["docof"][h] = "none"
            continue
        r = raw[h]
        for f in ("kind", "kids", "plist", "par", "name"):
            st[f][h] = r[f]
        if docof and r["kind"] == "other":
            st["docof"][h] = "none"
        elif docof:
            if _chain_is_finite(o):
                d = o.document
            else:
                d = with_budget(lambda: o.document)
            st["docof"][h] = HANG if d is HANG else handle(d)
    return st, objs


def core(st):
    return {f: st[f] for f in ("kind", "kids", "plist", "par", "name")}


# ---------------------------------------------------------------------------------------
# full projection: structure + every attribute + deep value lists + id tokens
import re as _re
_CANON = _re.compile(r"^[0-9a-f]{8}-[0-9a-f]{4}-[0-9a-f]{4}-[0-9a-f]{4}-[0-9a-f]{12}$")
SEC_ATTRS = ("type", "definition", "reference", "repository", "link", "include", "sec_cardinality", "prop_cardinality")
PROP_ATTRS = ("dtype", "unit", "uncertainty", "definition", "reference", "dependency", "dependency_value",
              "value_origin", "val_cardinality")
DOC_ATTRS = ("author", "version", "date", "repository")


def _s(v):
    import enum
    if isinstance(v, enum.Enum):
        v = v.value                 # a dtype given as DType member is the dtype of that name
    return "none" if v is None else repr(v)


def deep_vals(p):
    """the stored values through the public getter, nested lists kept nested (all leaves as repr strings)"""
    out = []
    for v in p.values:
        if isinstance(v, list):
            out.append({"t": "list", "e": [_s(x) for x in v]})
        else:
            out.append({"t": type(v).__name__, "e": [_s(v)]})
    return out


class IdTok(object):
    """canonical id strings -> i1, i2, ... by first appearance; anything else -> bad:<repr>"""
    def __init__(self):
        self.m = {}
    def __call__(self, s):
        if isinstance(s, str) and _CANON.match(s):
            return self.m.setdefault(s, "i%d" % (len(self.m) + 1))
        return "bad"


def project_full(objs, idtok, names_raw=True):
    """structure (as project) + attrs/vals/id per handle; names are the raw strings."""
    st, objs = project(objs, docof=False)
    st["attrs"], st["vals"], st["id"] = {}, {}, {}
    for h, o in objs.items():
        k = st["kind"][h]
        if o is None or k in ("unborn", "other"):
            st["attrs"][h], st["vals"][h], st["id"][h] = {}, [], "none"
            continue
        names = DOC_ATTRS if k == "doc" else SEC_ATTRS if k == "sec" else PROP_ATTRS
        # an attribute removed with `del obj.attr` (Section.definition has a deleter) reads as unset
        st["attrs"][h] = {a: _s(getattr(o, a, None)) for a in names}
        st["vals"][h] = deep_vals(o) if k == "prop" else []
        st["id"][h] = idtok(o.id)
        if names_raw and k in ("sec", "prop"):
            # a name that is an id string (unnamed objects are named by their id; a copy with a new
            # id keeps the name) is shown by the token of that id
            st["name"][h] = "empty" if o.name in (None, "") else (
                "#" + idtok(o.name) if isinstance(o.name, str) and _CANON.match(o.name) else str(o.name))
    return st, objs
