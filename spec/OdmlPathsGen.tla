---- MODULE OdmlPathsGen ----
(***************************************************************************)
(* Generator of all trees up to a small size over prefix-related names     *)
(* (handles are attached in a fixed order, so every tree is one state      *)
(* reached once) and the MODEL THEOREMS of C14, checked in every state:    *)
(*   Resolve(r, PathOf(x)) = x    from the document and from every section *)
(*   Resolve(a, RelPath(a, b)) = b   for every ordered pair of sections    *)
(***************************************************************************)
EXTENDS OdmlPaths, Json
CONSTANTS SecSeq, PropSeq, Names, Types
VARIABLES st, nxt
S3 == <<"s1","s2","s3">>
S4 == <<"s1","s2","s3","s4">>
S5 == <<"s1","s2","s3","s4","s5">>
P0 == <<>>
P1 == <<"p1">>
P2 == <<"p1","p2">>
AllIds == {"d1"} \cup SeqRange(SecSeq) \cup SeqRange(PropSeq)
Order == SecSeq \o PropSeq
Init == /\ st = [kind  |-> [x \in AllIds |-> IF x = "d1" THEN "doc" ELSE "unborn"],
                 kids  |-> [x \in AllIds |-> <<>>], plist |-> [x \in AllIds |-> <<>>],
                 par   |-> [x \in AllIds |-> NONE], name |-> [x \in AllIds |-> "-"],
                 type  |-> [x \in AllIds |-> "-"]]
        /\ nxt = 1
Next == /\ nxt <= Len(Order)
        /\ nxt' = nxt + 1
        /\ LET h == Order[nxt] IN
           \/ /\ nxt <= Len(SecSeq)
              /\ \E c \in Conts(st), n \in Names, t \in Types :
                   /\ \A y \in SeqRange(st.kids[c]) : st.name[y] # n
                   /\ st' = [st EXCEPT !.kind[h] = "sec", !.name[h] = n, !.type[h] = t, !.par[h] = c, !.kids[c] = Append(@, h)]
           \/ /\ nxt > Len(SecSeq)
              /\ \E c \in Secs(st), n \in Names :
                   /\ \A y \in SeqRange(st.plist[c]) : st.name[y] # n
                   /\ st' = [st EXCEPT !.kind[h] = "prop", !.name[h] = n, !.par[h] = c, !.plist[c] = Append(@, h)]
Spec == Init /\ [][Next]_<<st, nxt>>
ThmPath == \A x \in Secs(st) \cup Props(st) : \A r \in Conts(st) : Resolve(st, r, PathOf(st, x)) = x
ThmRel == \A a, b \in Secs(st) : Resolve(st, a, RelPath(st, a, b)) = b
ThmWF == WF(st) /\ UniqueSiblings(st)
Emit == PrintT(ToJson(st'))
====
