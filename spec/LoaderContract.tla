---- MODULE LoaderContract ----
(***************************************************************************)
(* C18 - CONTRACT on one observed execution of the real loader under the   *)
(* deterministic scheduler:                                                *)
(*   o = [graph, prog, results (seq of [op, url, res, sig, obj]),          *)
(*        errs (seq: exception of every thread, "none" if it finished),    *)
(*        deadlock, cached (urls with a cache file), fetchok, expected]    *)
(* expected[url] is what parsing the resource directly and finalising it   *)
(* gives ("none" if it cannot be fetched or parsed), computed from the     *)
(* include graph alone.                                                    *)
(***************************************************************************)
EXTENDS Naturals, Sequences, FiniteSets, TLC
Raised(o) == {o.results[i].res : i \in DOMAIN o.results} \cup {o.errs[i] : i \in DOMAIN o.errs}
NoRaise(o) == Raised(o) \subseteq {"ok", "none"}
Transparent(o) == \A i \in DOMAIN o.results :
                     (o.results[i].op = "load" /\ o.results[i].res = "ok") => o.results[i].sig = o.expected[o.results[i].url]
SameCached(o) == \A i, j \in DOMAIN o.results :
                     (o.results[i].op = "load" /\ o.results[j].op = "load" /\ o.results[i].url = o.results[j].url
                      /\ o.results[i].res = "ok" /\ o.results[j].res = "ok") => o.results[i].obj = o.results[j].obj
CacheSafe(o) == \A i \in DOMAIN o.cached : o.fetchok[o.cached[i]]
Terminates(o) == ~o.deadlock
====
