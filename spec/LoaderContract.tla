---- MODULE LoaderContract ----
(***************************************************************************)
(* C18 - CONTRACT on one observed execution of the real loader under the   *)
(* deterministic scheduler:                                                *)
(*   o = [graph, prog, results (seq of [op, url, res, sig, obj]),          *)
(*        errs (seq: exception of every thread, "none" if it finished),    *)
(*        deadlock, cache_before, cache_after, fetchok, expected]          *)
(* expected[url] is what parsing the resource directly and finalising it   *)
(* gives ("none" if it cannot be fetched or parsed), computed from the     *)
(* include graph alone.                                                    *)
(***************************************************************************)
EXTENDS Naturals, Sequences, FiniteSets, TLC
Raised(o) == {o.results[i].res : i \in DOMAIN o.results} \cup {o.errs[i] : i \in DOMAIN o.errs}
NoRaise(o) == Raised(o) \subseteq {"ok", "none"}
\* (expected[] is computed for the resources as they are at the start; once the caller has made a missing resource appear the
\* comparison of contents no longer applies - then ReachableIsLoaded says what is left to demand)
AppearedBefore(o, i) == \E j \in 1..(i - 1) : o.results[j].op = "appear"
Transparent(o) == \A i \in DOMAIN o.results :
                     (o.results[i].op = "load" /\ o.results[i].res = "ok" /\ ~AppearedBefore(o, i)) => o.results[i].sig = o.expected[o.results[i].url]
\* load(u) returns None only if u cannot be fetched or parsed when the call is made (results[i].usable): a fetch that failed
\* earlier - in a background loader or in an earlier load - is not remembered
ReachableIsLoaded(o) == \A i \in DOMAIN o.results :
                           (o.results[i].op = "load" /\ o.results[i].res = "ok") => ((o.results[i].sig = "none") <=> ~o.results[i].usable)
\* "later loads return the same cached object until refresh": compared within one epoch
Epoch(o, i) == Cardinality({j \in 1..i : o.results[j].op = "refresh"})
SameCached(o) == \A i, j \in DOMAIN o.results :
                     (o.results[i].op = "load" /\ o.results[j].op = "load" /\ o.results[i].url = o.results[j].url
                      /\ o.results[i].res = "ok" /\ o.results[j].res = "ok" /\ Epoch(o, i) = Epoch(o, j)
                      /\ o.results[i].obj # "none" /\ o.results[j].obj # "none")       \* (None is not a cached document)
                     => o.results[i].obj = o.results[j].obj
\* cache_before / cache_after[url]: "absent" | "current" | "old" | "other" - the cache file of url at the start / the end
\* "a fetch that fails never creates or overwrites a cache file"; and no cache file ever holds anything but a resource's text
CacheSafe(o) == /\ \A x \in DOMAIN o.fetchok : ~o.fetchok[x] => o.cache_after[x] = o.cache_before[x]
                /\ \A x \in DOMAIN o.fetchok : o.cache_after[x] # "other"
\* "... until refresh": a load(v) that follows a refresh(u), v being u or a file loading u loads, with no change of a resource in between,
\* shows every resource it is made of in its current state (results[i].vers: the version of each resource found in the
\* returned document, .cur: the version the resource had at its source when the call returned)
\* (o.reach[u]: u and every file loading u loads; refresh(u) forgets all loaded documents and fetches those again)
RefreshedBefore(o, i) == \E j \in 1..(i - 1) : /\ o.results[j].op = "refresh" /\ o.results[j].res = "ok"
                                               /\ \E n \in DOMAIN o.reach[o.results[j].url] : o.reach[o.results[j].url][n] = o.results[i].url
                                               /\ \A m \in (j + 1)..(i - 1) : o.results[m].op # "touch"
                                               \* (a loader started in the background before the resource changed may still be
                                               \* running when refresh is called; what refresh owes the caller then is not stated)
                                               /\ \A m \in 1..(j - 1) : o.results[m].op # "deferred_load"
FreshAfterRefresh(o) == \A i \in DOMAIN o.results :
                           (o.results[i].op = "load" /\ o.results[i].res = "ok" /\ RefreshedBefore(o, i)) => o.results[i].vers = o.results[i].cur
Terminates(o) == ~o.deadlock
====
