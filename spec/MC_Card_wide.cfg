SPECIFICATION Spec
CONSTANTS MaxCount = 1
 Lo <- MinusOne
 Hi = 12
INVARIANT InvNF
VIEW View
ACTION_CONSTRAINT Emit
CHECK_DEADLOCK FALSE
