---- MODULE JudgeDump ----
(* Judge for X04 (dumper.dump_doc). *)
EXTENDS OdmlDump, Json, IOUtils
Obs == ndJsonDeserialize(IOEnv.OBS_FILE)
VARIABLE l
Say(o, clause, sig) == PrintT(ToJson(<<"VIOL", "X04", clause, o.k, sig>>))
C(o, ok, clause, s) == IF ok THEN TRUE ELSE Say(o, clause, s)
Check(i) == LET o == Obs[i] IN C(o, DumpOK(o), "DumpOK", <<o.out, Len(o.lines)>>)
JInit == l = 1
JNext == l <= Len(Obs) /\ (Check(l) = TRUE) /\ l' = l + 1
JSpec == JInit /\ [][JNext]_l
Done == IF TLCGet("stats").diameter - 1 = Len(Obs) THEN TRUE
        ELSE PrintT(ToJson(<<"INCOMPLETE", TLCGet("stats").diameter - 1, Len(Obs)>>)) /\ FALSE
====
