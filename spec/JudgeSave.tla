---- MODULE JudgeSave ----
(* Judge for C07 observations. *)
EXTENDS OdmlSaveOps, IOUtils
Obs == ndJsonDeserialize(IOEnv.OBS_FILE)
VARIABLE l
SigOf(o) == <<o.c.entry, o.c.fmt, o.c.validity, o.c.variant, o.c.fault, o.c.file, o.c.opt, o.c.wmode, o.c.prior, o.c.tname, o.out, o.exc>>
Say(tag, prop, clause, o) == PrintT(ToJson(<<tag, prop, clause, o.k, SigOf(o)>>))
Chk(P, prop, clause, o) == IF P THEN TRUE ELSE Say("VIOL", prop, clause, o)
Check(i) == LET o == Obs[i] IN
   /\ Chk(RefusesInvalid(o), "C07", "InvalidNeverWritten", o)
   /\ Chk(FailedSaveHarmless(o), "C07", "FailedSaveHarmsNoFile", o)
   /\ Chk(WarningsOnlyIsSaved(o), "C07", "WarningsOnlyIsSavedAndReported", o)
   /\ Chk(SavedIsLoadable(o), "C07", "SavedFileIsComplete", o)
   /\ IF RefusesInvalid(o) /\ FailedSaveHarmless(o) /\ ~Conforms(o) THEN Say("DIVERGENCE", "-", "-", o) ELSE TRUE
JInit == l = 1
JNext == l <= Len(Obs) /\ (Check(l) = TRUE) /\ l' = l + 1
JSpec == JInit /\ [][JNext]_l
Done == IF TLCGet("stats").diameter - 1 = Len(Obs) THEN TRUE
        ELSE PrintT(ToJson(<<"INCOMPLETE", TLCGet("stats").diameter - 1, Len(Obs)>>)) /\ FALSE
====
