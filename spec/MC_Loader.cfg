SPECIFICATION Spec
CONSTANTS URLS = {"A","B","C","D"}
 Inc <- cInc
 Fetch <- cFetch
 Parse <- cParse
 MaxThr = 9
 Prog <- cProg
 CacheInit <- cCache
 FlatIncludes <- cFlat
 defaultInitValue = "dflt"
INVARIANT NoRaise
INVARIANT Transparent
INVARIANT SameCached
INVARIANT CacheSafe
INVARIANT NeverServesStale
INVARIANT Progress
CHECK_DEADLOCK FALSE
