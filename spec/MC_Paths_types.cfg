SPECIFICATION Spec
CONSTANTS SecSeq <- S3
 PropSeq <- P2
 Names = {"a","ab"}
 Types = {"t","u"}
INVARIANT ThmPath
INVARIANT ThmRel
INVARIANT ThmWF
ACTION_CONSTRAINT Emit
CHECK_DEADLOCK FALSE
