---- MODULE ValueCodecOps ----
(***************************************************************************)
(* The text form of a Property's value list in odML 1.1 XML: one value is  *)
(* its text; several are "[" CSV-joined "]" with a field quoted (quotes    *)
(* doubled) iff it contains a comma, a double quote, CR or LF.  A text is  *)
(* a sequence of character classes:                                        *)
(*   "p" plain  "c" comma  "q" double quote  "n" newline  "l" [  "r" ]     *)
(*   "s" space  "a" apostrophe  "m" XML metacharacter  "u" non-ASCII       *)
(* EncVals is the format as another tool would write it, DecVals the       *)
(* reader's documented rule, Trim what XML does to surrounding whitespace. *)
(***************************************************************************)
EXTENDS Naturals, Sequences, FiniteSets, TLC
IsWs(c) == c \in {"s", "n"}
RECURSIVE LTrim(_), RTrim(_)
LTrim(t) == IF t # <<>> /\ IsWs(Head(t)) THEN LTrim(Tail(t)) ELSE t
RTrim(t) == IF t # <<>> /\ IsWs(t[Len(t)]) THEN RTrim(SubSeq(t, 1, Len(t) - 1)) ELSE t
Trim(t) == RTrim(LTrim(t))
TrimAll(vs) == [i \in DOMAIN vs |-> Trim(vs[i])]
Has(t, cs) == \E i \in DOMAIN t : t[i] \in cs
RECURSIVE DoubleQ(_)
DoubleQ(t) == IF t = <<>> THEN <<>> ELSE (IF Head(t) = "q" THEN <<"q", "q">> ELSE <<Head(t)>>) \o DoubleQ(Tail(t))
Field(t) == IF Has(t, {"c", "q", "n"}) THEN <<"q">> \o DoubleQ(t) \o <<"q">> ELSE t
RECURSIVE Join(_)
Join(fs) == IF Len(fs) = 1 THEN fs[1] ELSE fs[1] \o <<"c">> \o Join(Tail(fs))
\* value lists the text form can represent: no empty value; a single value must not look bracketed;
\* a field of a list must not start or end with white space (CSV readers strip it) 
Representable(vs) == /\ \A i \in DOMAIN vs : Trim(vs[i]) # <<>>
                     /\ Len(vs) = 1 => ~(Head(Trim(vs[1])) = "l" /\ Trim(vs[1])[Len(Trim(vs[1]))] = "r")
EncVals(vs) == IF Len(vs) = 0 THEN <<>>
               ELSE IF Len(vs) = 1 THEN Trim(vs[1])
               ELSE <<"l">> \o Join([i \in DOMAIN vs |-> Field(Trim(vs[i]))]) \o <<"r">>
\* CSV record parser: rest, current field, fields so far, mode
\* (0 start of field, 1 unquoted, 2 in quotes, 3 quote seen inside quotes)
RECURSIVE Parse(_,_,_,_)
Parse(rest, cur, acc, mode) ==
  IF rest = <<>> THEN Append(acc, cur)
  ELSE LET ch == Head(rest) IN LET tl == Tail(rest) IN
    CASE mode = 0 -> IF ch = "q" THEN Parse(tl, cur, acc, 2) ELSE IF ch = "c" THEN Parse(tl, <<>>, Append(acc, cur), 0) ELSE Parse(tl, Append(cur, ch), acc, 1)
      [] mode = 1 -> IF ch = "c" THEN Parse(tl, <<>>, Append(acc, cur), 0) ELSE Parse(tl, Append(cur, ch), acc, 1)
      [] mode = 2 -> IF ch = "q" THEN Parse(tl, cur, acc, 3) ELSE Parse(tl, Append(cur, ch), acc, 2)
      [] mode = 3 -> IF ch = "q" THEN Parse(tl, Append(cur, "q"), acc, 2) ELSE IF ch = "c" THEN Parse(tl, <<>>, Append(acc, cur), 0) ELSE Parse(tl, Append(cur, ch), acc, 1)
DecVals(t) == IF t = <<>> THEN <<>>
              ELSE IF Head(t) = "l" /\ t[Len(t)] = "r" THEN (IF Len(t) = 2 THEN <<>> ELSE TrimAll(Parse(SubSeq(t, 2, Len(t) - 1), <<>>, <<>>, 0)))
              ELSE <<t>>

(***************************************************************************)
(* CONTRACT on an observation of the real codec for value list vs:         *)
(*   o = [vs, wrote ("ok"|"raised"), text (what the real writer put into   *)
(*        the value element, as classes), back (what the real reader made  *)
(*        of it), foreign (what the real reader made of EncVals(vs) written*)
(*        by another tool), json, yaml (round trips of the same values)]   *)
(***************************************************************************)
\* (a) real writer -> real reader gives the trimmed values, or the writer raised
RoundTripXml(o) == o.wrote = "raised" \/ o.back = TrimAll(o.vs)
\* (b) what the real writer wrote means, to the spec's reader, the trimmed values
WriterOK(o) == (o.wrote = "ok" /\ Representable(o.vs)) => DecVals(o.text) = TrimAll(o.vs)
\* (c) what another tool writes to the format is read correctly by the real reader
ReaderOK(o) == Representable(o.vs) => o.foreign = TrimAll(o.vs)
\* JSON / YAML keep text exactly
RoundTripDict(o) == o.json = o.vs /\ o.yaml = o.vs
====
