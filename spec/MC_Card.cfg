SPECIFICATION Spec
CONSTANTS MaxCount = 5
 Lo <- MinusOne
 Hi = 4
INVARIANT InvNF
VIEW View
ACTION_CONSTRAINT Emit
CHECK_DEADLOCK FALSE
