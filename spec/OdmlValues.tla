---- MODULE OdmlValues ----
(***************************************************************************)
(* Reference state machine for one Property's (dtype, values): abstract    *)
(* state [d, n] (dtype, number of stored values); every value editing      *)
(* operation x every input class x strict on/off.  Emits every transition. *)
(***************************************************************************)
EXTENDS OdmlValuesOps, Json
CONSTANTS MaxN
VARIABLES ps, last
States == {Abs(d, n) : d \in Dtypes, n \in 0..MaxN} \cup {Abs("none", 0)}
Init == ps = Abs("none", 0) /\ last = [op |-> [name |-> "init"], out |-> "ok"]
Ops(s) ==
   {[name |-> "set_values", in |-> c] : c \in Classes} \cup
   {[name |-> nm, in |-> c, strict |-> b] : nm \in {"append", "extend"}, c \in Classes, b \in BOOLEAN} \cup
   {[name |-> "extend", in |-> c, strict |-> b] : c \in PropInputs, b \in BOOLEAN} \cup
   {[name |-> "insert", i |-> i, in |-> c, strict |-> b] : i \in {0, 1, 5}, c \in Scalars \cup Empties, b \in BOOLEAN} \cup
   {[name |-> "setitem", i |-> i, in |-> c] : i \in {0, 1, 5}, c \in Scalars \cup Empties} \cup
   {[name |-> "remove", in |-> c] : c \in {"int", "str", "float_f"}} \cup
   {[name |-> "set_dtype", d |-> d] : d \in Dtypes \cup {"foo", "none"}} \cup
   {[name |-> "merge", d |-> d, n |-> n, strict |-> b] : d \in Dtypes, n \in 0..2, b \in BOOLEAN} \cup
   {[name |-> "ctor", d |-> d, in |-> c] : d \in Dtypes \cup {"none", "foo"}, c \in Classes} \cup
   {[name |-> "clone"]}
Next == \E op \in Ops(ps) : \E r \in Post(ps, op) :
          /\ ps' = (IF r.s = Absent THEN ps ELSE r.s)
          /\ ps'.n <= MaxN
          /\ last' = [op |-> op, out |-> r.out]
Spec == Init /\ [][Next]_<<ps, last>>
View == ps
TypeInv == ps \in States
\* one emission per (state, operation): the reference may allow several outcomes
Emit == PrintT(ToJson([pre |-> ps, op |-> last'.op]))
====
