---- MODULE JudgeInherit ----
(* Judge for the inheritance of repositories and terminology equivalents (beyond the listed properties: id X01). *)
EXTENDS OdmlInherit, Json, IOUtils
Obs == ndJsonDeserialize(IOEnv.OBS_FILE)
VARIABLE l
Say(o, clause, sig) == PrintT(ToJson(<<"VIOL", "X01", clause, o.k, sig>>))
C(o, ok, clause, s) == IF ok THEN TRUE ELSE Say(o, clause, s)
JObjs(o) == {x \in DOMAIN o.st.kind : o.st.kind[x] \in {"doc", "sec", "prop"}}
Check(i) == LET o == Obs[i] IN
   /\ \A x \in JObjs(o) : C(o, RepoOK(o, x), "GoverningRepository", <<o.st.kind[x]>>)
   /\ \A x \in JObjs(o) : C(o, EquivOK(o, x), "TerminologyEquivalent", <<o.st.kind[x]>>)
JInit == l = 1
JNext == l <= Len(Obs) /\ (Check(l) = TRUE) /\ l' = l + 1
JSpec == JInit /\ [][JNext]_l
Done == IF TLCGet("stats").diameter - 1 = Len(Obs) THEN TRUE
        ELSE PrintT(ToJson(<<"INCOMPLETE", TLCGet("stats").diameter - 1, Len(Obs)>>)) /\ FALSE
====
