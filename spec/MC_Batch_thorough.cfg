SPECIFICATION Spec
CONSTANTS MaxFiles = 3
ACTION_CONSTRAINT Emit
CHECK_DEADLOCK FALSE
