---- MODULE OdmlRegistry ----
(***************************************************************************)
(* C19 - validation observes only: no side effects, repeatable, custom     *)
(* rules stay private.  REFERENCE machine of the rule registries:          *)
(*   defaults     the class-level registry (set of rule names per class)   *)
(*   inst[i]      the private registry of the i-th Validation created with *)
(*                reset=True (set of custom rule names)                    *)
(*   ver          version of the validated document (bumped by edits)      *)
(* register_optional adds the library's own optional rules (repository     *)
(* present, terminology check) to a private validation.                    *)
(* Actions: default validation, creation of a custom validation, adding a  *)
(* custom rule to it, running it, creating objects, setting cardinalities  *)
(* (both run private validations internally), save and load;               *)
(* clone_validate: a copy of the document is edited and validated twice,   *)
(* through Document.validate() and through a new Validation object.        *)
(* Every history up to length Depth is generated and replayed on one       *)
(* evolving interpreter state.                                             *)
(***************************************************************************)
EXTENDS Naturals, Sequences, FiniteSets, TLC, Json
CONSTANTS Depth, MaxInst
VARIABLES hist, ninst, inst, ver
Alphabet == {"default_validate", "doc_validate", "section_validate", "property_validate", "rerun_last", "report_last", "clone_validate", "new_custom", "create_section", "create_property", "set_card", "save", "load"} \cup
            {"register_" \o k : k \in {"section", "property", "optional"}} \cup {"run_custom"}
Init == hist = <<>> /\ ninst = 0 /\ inst = [i \in 1..MaxInst |-> {}] /\ ver = 0
Do(a) ==
   /\ Len(hist) < Depth
   /\ hist' = Append(hist, a)
   /\ CASE a = "new_custom" -> ninst < MaxInst /\ ninst' = ninst + 1 /\ UNCHANGED <<inst, ver>>
        [] a \in {"register_section", "register_property", "register_optional"} ->
              ninst > 0 /\ inst' = [inst EXCEPT ![ninst] = @ \cup {a}] /\ UNCHANGED <<ninst, ver>>
        [] a = "run_custom" -> ninst > 0 /\ UNCHANGED <<ninst, inst, ver>>
        [] a \in {"create_section", "create_property", "set_card"} -> ver' = ver + 1 /\ UNCHANGED <<ninst, inst>>
        [] OTHER -> UNCHANGED <<ninst, inst, ver>>
Next == \E a \in Alphabet : Do(a)
Spec == Init /\ [][Next]_<<hist, ninst, inst, ver>>
\* the class-level registry is not a variable of the reference at all: no action can change it
TypeOK == Len(hist) <= Depth /\ ninst <= MaxInst
Emit == Len(hist') = Depth => PrintT(ToJson([hist |-> hist']))

====
