---- MODULE OdmlLoader ----
(***************************************************************************)
(* C18 - background loading of terminologies is transparent in every       *)
(* schedule.  PlusCal model of odml/terminology.py at the granularity of   *)
(* accesses to the shared tables `loaded` (the Terminologies dict) and     *)
(* `loading` (url -> loader thread) and of thread create / start / join.   *)
(* cache_load is one atomic step (the property's stated granularity).      *)
(* Include recursion runs through the PlusCal call stack:                  *)
(*   RawLoad(v) parses v and, for every url u in IncSeq(v), calls          *)
(*   Deferred(u); Load(u)  (Section.include: deferred_load then load).     *)
(* touch(u) (caller only) stands for the resource changing at its source.   *)
(* refresh(u) sets the reload flag, clears the loaded table in one step,    *)
(* loads u and resets the flag.  The download cache is a function          *)
(* url -> "absent" | "fresh" | "stale": a fresh copy is used without a     *)
(* fetch unless the reload flag is set; everything else fetches, and only  *)
(* a successful fetch writes the cache (CacheInit: its state at the start).*)
(* Labels that correspond to an observable access of the real code carry   *)
(* the same name in the scheduler's event log (see LoaderTrace.tla).       *)
(***************************************************************************)
EXTENDS Naturals, Sequences, FiniteSets, TLC
CONSTANTS URLS, Inc, Fetch, Parse, MaxThr, Prog, CacheInit
Absent == 0          \* url not in the table
NoneV == 99          \* Python None (resource could not be fetched or parsed)
Thr == 1..MaxThr
Main == 0
Procs == {Main} \cup Thr
\* finalize() of a parsed document resolves its includes breadth first, and then the includes of
\* the Sections the resolution copied in (they keep their include attribute): the sequence of
\* urls it asks for is the breadth-first closure of the include graph below v
Usable(x) == Fetch[x] /\ Parse[x]
RECURSIVE Flat(_)
Flat(ss) == IF ss = <<>> THEN <<>> ELSE (IF Usable(Head(ss)) THEN Inc[Head(ss)] ELSE <<>>) \o Flat(Tail(ss))
RECURSIVE Levels(_, _)
Levels(lv, n) == IF lv = <<>> \/ n = 0 THEN <<>> ELSE lv \o Levels(Flat(lv), n - 1)
IncSeq(x) == Levels(Inc[x], Cardinality(URLS))

(* --algorithm Loader {
variables loaded = [uu \in URLS |-> Absent],     \* Terminologies dict: url -> document id | NoneV
          loading = [uu \in URLS |-> 0],          \* url -> thread id (0: no entry)
          tstate = [tt \in Thr |-> "unborn"],     \* unborn / created / running / done
          targ = [tt \in Thr |-> "nourl"],
          nthr = 0,
          ndoc = 0,                               \* documents parsed so far (fresh ids)
          err = [pp \in Procs |-> "ok"],          \* exception that killed the process
          results = <<>>,                         \* <<url, value>> of every load() the caller finished
          cachew = {},                            \* urls whose cache file was written
          cache = CacheInit,                      \* url -> "absent" | "fresh" | "stale"
          reload = FALSE,                         \* Terminologies.reload_cache
          epoch = 0,                              \* number of refresh calls the caller has begun
          ver = [uu \in URLS |-> 0],              \* how often the caller has changed the resource at its source ("touch")
          ret = [pp \in Procs |-> Absent];

procedure Load(u)
  variables jt = 0;
{
 LdIn:  if (loaded[u] # Absent) {
 LdGet:    ret[self] := loaded[u]; return; };
 LgIn:  if (loading[u] # 0) {
 LgGet:    jt := loading[u];
           if (jt = 0) { err[self] := "KeyError"; goto Halt; };
 Join:     if (tstate[jt] = "created") { err[self] := "RuntimeError"; goto Halt; }
           else if (tstate[jt] # "done") {
 Joined:      await tstate[jt] = "done"; };
 LgPop:    loading[u] := 0;
           call Load(u);
 LdRet:    return; };
 Raw:   call RawLoad(u);
 RawRet: return;
 Halt:  if (self # Main) { tstate[self] := "done"; };       \* a loader thread that dies of an exception has ended: joining it returns
 HDead: await FALSE;
}

procedure RawLoad(v)
  variables i = 1, doc = NoneV;
{
 RFetch: if (cache[v] = "fresh" /\ ~reload) { skip; }               \* served from the cache, no fetch
         else if (~Fetch[v]) { ret[self] := NoneV; return; }        \* a failed fetch leaves the cache alone
         else { cachew := cachew \cup {v}; cache[v] := "fresh"; };
 RParse: if (~Parse[v]) { doc := NoneV; goto Pub; } else { ndoc := ndoc + 1; doc := ndoc; };
 Loop:   while (i <= Len(IncSeq(v))) {
            call Deferred(IncSeq(v)[i]);
 IncLoad:   call Load(IncSeq(v)[i]);
 IncNext:   i := i + 1;
         };
 Pub:    loaded[v] := doc; ret[self] := doc; return;
}

procedure Deferred(w)
  variables newt = 0, st = 0;
{
 DfLdIn: if (loaded[w] # Absent) { return; };
 DfLgIn: if (loading[w] # 0) { return; } else { nthr := nthr + 1; newt := nthr; tstate[nthr] := "created"; targ[nthr] := w; };
 DfSet:  loading[w] := newt;
 DfGet:  st := loading[w];
         if (st = 0) { err[self] := "KeyError"; goto DHalt; };
 DfStart: if (tstate[st] # "created") { err[self] := "RuntimeError"; goto DHalt; }     \* Thread.start() of a thread that was started before
          else { tstate[st] := "running"; return; };
 DHalt: if (self # Main) { tstate[self] := "done"; };
 DDead: await FALSE;
}

process (M \in {Main})
  variables k = 1;
{
 MBegin: skip;
 MLoop: while (k <= Len(Prog)) {
          if (Prog[k][1] = "load") {
             call Load(Prog[k][2]);
 MRes:       results := Append(results, <<Prog[k][2], ret[self], epoch>>);
          } else if (Prog[k][1] = "refresh") {
             reload := TRUE; epoch := epoch + 1;
 RfClear:    loaded := [uu \in URLS |-> Absent];
             call Load(Prog[k][2]);
 RfDone:     reload := FALSE;
          } else if (Prog[k][1] = "touch") {
 MTouch:     ver[Prog[k][2]] := ver[Prog[k][2]] + 1;     \* the resource changes at its source; caches and tables do not notice
          } else {
             call Deferred(Prog[k][2]);
          };
 MNext:   k := k + 1;
        };
}

process (T \in Thr)
{
 TBegin: await tstate[self] = "running";
 TRun:   call RawLoad(targ[self]);
 TDone:  tstate[self] := "done";
}
} *)
\* BEGIN TRANSLATION
CONSTANT defaultInitValue
VARIABLES pc, loaded, loading, tstate, targ, nthr, ndoc, err, results, cachew, 
          cache, reload, epoch, ver, ret, stack, u, jt, v, i, doc, w, newt, 
          st, k

vars == << pc, loaded, loading, tstate, targ, nthr, ndoc, err, results, 
           cachew, cache, reload, epoch, ver, ret, stack, u, jt, v, i, doc, w, 
           newt, st, k >>

ProcSet == ({Main}) \cup (Thr)

Init == (* Global variables *)
        /\ loaded = [uu \in URLS |-> Absent]
        /\ loading = [uu \in URLS |-> 0]
        /\ tstate = [tt \in Thr |-> "unborn"]
        /\ targ = [tt \in Thr |-> "nourl"]
        /\ nthr = 0
        /\ ndoc = 0
        /\ err = [pp \in Procs |-> "ok"]
        /\ results = <<>>
        /\ cachew = {}
        /\ cache = CacheInit
        /\ reload = FALSE
        /\ epoch = 0
        /\ ver = [uu \in URLS |-> 0]
        /\ ret = [pp \in Procs |-> Absent]
        (* Procedure Load *)
        /\ u = [ self \in ProcSet |-> defaultInitValue]
        /\ jt = [ self \in ProcSet |-> 0]
        (* Procedure RawLoad *)
        /\ v = [ self \in ProcSet |-> defaultInitValue]
        /\ i = [ self \in ProcSet |-> 1]
        /\ doc = [ self \in ProcSet |-> NoneV]
        (* Procedure Deferred *)
        /\ w = [ self \in ProcSet |-> defaultInitValue]
        /\ newt = [ self \in ProcSet |-> 0]
        /\ st = [ self \in ProcSet |-> 0]
        (* Process M *)
        /\ k = [self \in {Main} |-> 1]
        /\ stack = [self \in ProcSet |-> << >>]
        /\ pc = [self \in ProcSet |-> CASE self \in {Main} -> "MBegin"
                                        [] self \in Thr -> "TBegin"]

LdIn(self) == /\ pc[self] = "LdIn"
              /\ IF loaded[u[self]] # Absent
                    THEN /\ pc' = [pc EXCEPT ![self] = "LdGet"]
                    ELSE /\ pc' = [pc EXCEPT ![self] = "LgIn"]
              /\ UNCHANGED << loaded, loading, tstate, targ, nthr, ndoc, err, 
                              results, cachew, cache, reload, epoch, ver, ret, 
                              stack, u, jt, v, i, doc, w, newt, st, k >>

LdGet(self) == /\ pc[self] = "LdGet"
               /\ ret' = [ret EXCEPT ![self] = loaded[u[self]]]
               /\ pc' = [pc EXCEPT ![self] = Head(stack[self]).pc]
               /\ jt' = [jt EXCEPT ![self] = Head(stack[self]).jt]
               /\ u' = [u EXCEPT ![self] = Head(stack[self]).u]
               /\ stack' = [stack EXCEPT ![self] = Tail(stack[self])]
               /\ UNCHANGED << loaded, loading, tstate, targ, nthr, ndoc, err, 
                               results, cachew, cache, reload, epoch, ver, v, 
                               i, doc, w, newt, st, k >>

LgIn(self) == /\ pc[self] = "LgIn"
              /\ IF loading[u[self]] # 0
                    THEN /\ pc' = [pc EXCEPT ![self] = "LgGet"]
                    ELSE /\ pc' = [pc EXCEPT ![self] = "Raw"]
              /\ UNCHANGED << loaded, loading, tstate, targ, nthr, ndoc, err, 
                              results, cachew, cache, reload, epoch, ver, ret, 
                              stack, u, jt, v, i, doc, w, newt, st, k >>

LgGet(self) == /\ pc[self] = "LgGet"
               /\ jt' = [jt EXCEPT ![self] = loading[u[self]]]
               /\ IF jt'[self] = 0
                     THEN /\ err' = [err EXCEPT ![self] = "KeyError"]
                          /\ pc' = [pc EXCEPT ![self] = "Halt"]
                     ELSE /\ pc' = [pc EXCEPT ![self] = "Join"]
                          /\ err' = err
               /\ UNCHANGED << loaded, loading, tstate, targ, nthr, ndoc, 
                               results, cachew, cache, reload, epoch, ver, ret, 
                               stack, u, v, i, doc, w, newt, st, k >>

Join(self) == /\ pc[self] = "Join"
              /\ IF tstate[jt[self]] = "created"
                    THEN /\ err' = [err EXCEPT ![self] = "RuntimeError"]
                         /\ pc' = [pc EXCEPT ![self] = "Halt"]
                    ELSE /\ IF tstate[jt[self]] # "done"
                               THEN /\ pc' = [pc EXCEPT ![self] = "Joined"]
                               ELSE /\ pc' = [pc EXCEPT ![self] = "LgPop"]
                         /\ err' = err
              /\ UNCHANGED << loaded, loading, tstate, targ, nthr, ndoc, 
                              results, cachew, cache, reload, epoch, ver, ret, 
                              stack, u, jt, v, i, doc, w, newt, st, k >>

Joined(self) == /\ pc[self] = "Joined"
                /\ tstate[jt[self]] = "done"
                /\ pc' = [pc EXCEPT ![self] = "LgPop"]
                /\ UNCHANGED << loaded, loading, tstate, targ, nthr, ndoc, err, 
                                results, cachew, cache, reload, epoch, ver, 
                                ret, stack, u, jt, v, i, doc, w, newt, st, k >>

LgPop(self) == /\ pc[self] = "LgPop"
               /\ loading' = [loading EXCEPT ![u[self]] = 0]
               /\ /\ stack' = [stack EXCEPT ![self] = << [ procedure |->  "Load",
                                                           pc        |->  "LdRet",
                                                           jt        |->  jt[self],
                                                           u         |->  u[self] ] >>
                                                       \o stack[self]]
                  /\ u' = [u EXCEPT ![self] = u[self]]
               /\ jt' = [jt EXCEPT ![self] = 0]
               /\ pc' = [pc EXCEPT ![self] = "LdIn"]
               /\ UNCHANGED << loaded, tstate, targ, nthr, ndoc, err, results, 
                               cachew, cache, reload, epoch, ver, ret, v, i, 
                               doc, w, newt, st, k >>

LdRet(self) == /\ pc[self] = "LdRet"
               /\ pc' = [pc EXCEPT ![self] = Head(stack[self]).pc]
               /\ jt' = [jt EXCEPT ![self] = Head(stack[self]).jt]
               /\ u' = [u EXCEPT ![self] = Head(stack[self]).u]
               /\ stack' = [stack EXCEPT ![self] = Tail(stack[self])]
               /\ UNCHANGED << loaded, loading, tstate, targ, nthr, ndoc, err, 
                               results, cachew, cache, reload, epoch, ver, ret, 
                               v, i, doc, w, newt, st, k >>

Raw(self) == /\ pc[self] = "Raw"
             /\ /\ stack' = [stack EXCEPT ![self] = << [ procedure |->  "RawLoad",
                                                         pc        |->  "RawRet",
                                                         i         |->  i[self],
                                                         doc       |->  doc[self],
                                                         v         |->  v[self] ] >>
                                                     \o stack[self]]
                /\ v' = [v EXCEPT ![self] = u[self]]
             /\ i' = [i EXCEPT ![self] = 1]
             /\ doc' = [doc EXCEPT ![self] = NoneV]
             /\ pc' = [pc EXCEPT ![self] = "RFetch"]
             /\ UNCHANGED << loaded, loading, tstate, targ, nthr, ndoc, err, 
                             results, cachew, cache, reload, epoch, ver, ret, 
                             u, jt, w, newt, st, k >>

RawRet(self) == /\ pc[self] = "RawRet"
                /\ pc' = [pc EXCEPT ![self] = Head(stack[self]).pc]
                /\ jt' = [jt EXCEPT ![self] = Head(stack[self]).jt]
                /\ u' = [u EXCEPT ![self] = Head(stack[self]).u]
                /\ stack' = [stack EXCEPT ![self] = Tail(stack[self])]
                /\ UNCHANGED << loaded, loading, tstate, targ, nthr, ndoc, err, 
                                results, cachew, cache, reload, epoch, ver, 
                                ret, v, i, doc, w, newt, st, k >>

Halt(self) == /\ pc[self] = "Halt"
              /\ IF self # Main
                    THEN /\ tstate' = [tstate EXCEPT ![self] = "done"]
                    ELSE /\ TRUE
                         /\ UNCHANGED tstate
              /\ pc' = [pc EXCEPT ![self] = "HDead"]
              /\ UNCHANGED << loaded, loading, targ, nthr, ndoc, err, results, 
                              cachew, cache, reload, epoch, ver, ret, stack, u, 
                              jt, v, i, doc, w, newt, st, k >>

HDead(self) == /\ pc[self] = "HDead"
               /\ FALSE
               /\ pc' = [pc EXCEPT ![self] = "Error"]
               /\ UNCHANGED << loaded, loading, tstate, targ, nthr, ndoc, err, 
                               results, cachew, cache, reload, epoch, ver, ret, 
                               stack, u, jt, v, i, doc, w, newt, st, k >>

Load(self) == LdIn(self) \/ LdGet(self) \/ LgIn(self) \/ LgGet(self)
                 \/ Join(self) \/ Joined(self) \/ LgPop(self)
                 \/ LdRet(self) \/ Raw(self) \/ RawRet(self) \/ Halt(self)
                 \/ HDead(self)

RFetch(self) == /\ pc[self] = "RFetch"
                /\ IF cache[v[self]] = "fresh" /\ ~reload
                      THEN /\ TRUE
                           /\ pc' = [pc EXCEPT ![self] = "RParse"]
                           /\ UNCHANGED << cachew, cache, ret, stack, v, i, 
                                           doc >>
                      ELSE /\ IF ~Fetch[v[self]]
                                 THEN /\ ret' = [ret EXCEPT ![self] = NoneV]
                                      /\ pc' = [pc EXCEPT ![self] = Head(stack[self]).pc]
                                      /\ i' = [i EXCEPT ![self] = Head(stack[self]).i]
                                      /\ doc' = [doc EXCEPT ![self] = Head(stack[self]).doc]
                                      /\ v' = [v EXCEPT ![self] = Head(stack[self]).v]
                                      /\ stack' = [stack EXCEPT ![self] = Tail(stack[self])]
                                      /\ UNCHANGED << cachew, cache >>
                                 ELSE /\ cachew' = (cachew \cup {v[self]})
                                      /\ cache' = [cache EXCEPT ![v[self]] = "fresh"]
                                      /\ pc' = [pc EXCEPT ![self] = "RParse"]
                                      /\ UNCHANGED << ret, stack, v, i, doc >>
                /\ UNCHANGED << loaded, loading, tstate, targ, nthr, ndoc, err, 
                                results, reload, epoch, ver, u, jt, w, newt, 
                                st, k >>

RParse(self) == /\ pc[self] = "RParse"
                /\ IF ~Parse[v[self]]
                      THEN /\ doc' = [doc EXCEPT ![self] = NoneV]
                           /\ pc' = [pc EXCEPT ![self] = "Pub"]
                           /\ ndoc' = ndoc
                      ELSE /\ ndoc' = ndoc + 1
                           /\ doc' = [doc EXCEPT ![self] = ndoc']
                           /\ pc' = [pc EXCEPT ![self] = "Loop"]
                /\ UNCHANGED << loaded, loading, tstate, targ, nthr, err, 
                                results, cachew, cache, reload, epoch, ver, 
                                ret, stack, u, jt, v, i, w, newt, st, k >>

Loop(self) == /\ pc[self] = "Loop"
              /\ IF i[self] <= Len(IncSeq(v[self]))
                    THEN /\ /\ stack' = [stack EXCEPT ![self] = << [ procedure |->  "Deferred",
                                                                     pc        |->  "IncLoad",
                                                                     newt      |->  newt[self],
                                                                     st        |->  st[self],
                                                                     w         |->  w[self] ] >>
                                                                 \o stack[self]]
                            /\ w' = [w EXCEPT ![self] = IncSeq(v[self])[i[self]]]
                         /\ newt' = [newt EXCEPT ![self] = 0]
                         /\ st' = [st EXCEPT ![self] = 0]
                         /\ pc' = [pc EXCEPT ![self] = "DfLdIn"]
                    ELSE /\ pc' = [pc EXCEPT ![self] = "Pub"]
                         /\ UNCHANGED << stack, w, newt, st >>
              /\ UNCHANGED << loaded, loading, tstate, targ, nthr, ndoc, err, 
                              results, cachew, cache, reload, epoch, ver, ret, 
                              u, jt, v, i, doc, k >>

IncLoad(self) == /\ pc[self] = "IncLoad"
                 /\ /\ stack' = [stack EXCEPT ![self] = << [ procedure |->  "Load",
                                                             pc        |->  "IncNext",
                                                             jt        |->  jt[self],
                                                             u         |->  u[self] ] >>
                                                         \o stack[self]]
                    /\ u' = [u EXCEPT ![self] = IncSeq(v[self])[i[self]]]
                 /\ jt' = [jt EXCEPT ![self] = 0]
                 /\ pc' = [pc EXCEPT ![self] = "LdIn"]
                 /\ UNCHANGED << loaded, loading, tstate, targ, nthr, ndoc, 
                                 err, results, cachew, cache, reload, epoch, 
                                 ver, ret, v, i, doc, w, newt, st, k >>

IncNext(self) == /\ pc[self] = "IncNext"
                 /\ i' = [i EXCEPT ![self] = i[self] + 1]
                 /\ pc' = [pc EXCEPT ![self] = "Loop"]
                 /\ UNCHANGED << loaded, loading, tstate, targ, nthr, ndoc, 
                                 err, results, cachew, cache, reload, epoch, 
                                 ver, ret, stack, u, jt, v, doc, w, newt, st, 
                                 k >>

Pub(self) == /\ pc[self] = "Pub"
             /\ loaded' = [loaded EXCEPT ![v[self]] = doc[self]]
             /\ ret' = [ret EXCEPT ![self] = doc[self]]
             /\ pc' = [pc EXCEPT ![self] = Head(stack[self]).pc]
             /\ i' = [i EXCEPT ![self] = Head(stack[self]).i]
             /\ doc' = [doc EXCEPT ![self] = Head(stack[self]).doc]
             /\ v' = [v EXCEPT ![self] = Head(stack[self]).v]
             /\ stack' = [stack EXCEPT ![self] = Tail(stack[self])]
             /\ UNCHANGED << loading, tstate, targ, nthr, ndoc, err, results, 
                             cachew, cache, reload, epoch, ver, u, jt, w, newt, 
                             st, k >>

RawLoad(self) == RFetch(self) \/ RParse(self) \/ Loop(self)
                    \/ IncLoad(self) \/ IncNext(self) \/ Pub(self)

DfLdIn(self) == /\ pc[self] = "DfLdIn"
                /\ IF loaded[w[self]] # Absent
                      THEN /\ pc' = [pc EXCEPT ![self] = Head(stack[self]).pc]
                           /\ newt' = [newt EXCEPT ![self] = Head(stack[self]).newt]
                           /\ st' = [st EXCEPT ![self] = Head(stack[self]).st]
                           /\ w' = [w EXCEPT ![self] = Head(stack[self]).w]
                           /\ stack' = [stack EXCEPT ![self] = Tail(stack[self])]
                      ELSE /\ pc' = [pc EXCEPT ![self] = "DfLgIn"]
                           /\ UNCHANGED << stack, w, newt, st >>
                /\ UNCHANGED << loaded, loading, tstate, targ, nthr, ndoc, err, 
                                results, cachew, cache, reload, epoch, ver, 
                                ret, u, jt, v, i, doc, k >>

DfLgIn(self) == /\ pc[self] = "DfLgIn"
                /\ IF loading[w[self]] # 0
                      THEN /\ pc' = [pc EXCEPT ![self] = Head(stack[self]).pc]
                           /\ newt' = [newt EXCEPT ![self] = Head(stack[self]).newt]
                           /\ st' = [st EXCEPT ![self] = Head(stack[self]).st]
                           /\ w' = [w EXCEPT ![self] = Head(stack[self]).w]
                           /\ stack' = [stack EXCEPT ![self] = Tail(stack[self])]
                           /\ UNCHANGED << tstate, targ, nthr >>
                      ELSE /\ nthr' = nthr + 1
                           /\ newt' = [newt EXCEPT ![self] = nthr']
                           /\ tstate' = [tstate EXCEPT ![nthr'] = "created"]
                           /\ targ' = [targ EXCEPT ![nthr'] = w[self]]
                           /\ pc' = [pc EXCEPT ![self] = "DfSet"]
                           /\ UNCHANGED << stack, w, st >>
                /\ UNCHANGED << loaded, loading, ndoc, err, results, cachew, 
                                cache, reload, epoch, ver, ret, u, jt, v, i, 
                                doc, k >>

DfSet(self) == /\ pc[self] = "DfSet"
               /\ loading' = [loading EXCEPT ![w[self]] = newt[self]]
               /\ pc' = [pc EXCEPT ![self] = "DfGet"]
               /\ UNCHANGED << loaded, tstate, targ, nthr, ndoc, err, results, 
                               cachew, cache, reload, epoch, ver, ret, stack, 
                               u, jt, v, i, doc, w, newt, st, k >>

DfGet(self) == /\ pc[self] = "DfGet"
               /\ st' = [st EXCEPT ![self] = loading[w[self]]]
               /\ IF st'[self] = 0
                     THEN /\ err' = [err EXCEPT ![self] = "KeyError"]
                          /\ pc' = [pc EXCEPT ![self] = "DHalt"]
                     ELSE /\ pc' = [pc EXCEPT ![self] = "DfStart"]
                          /\ err' = err
               /\ UNCHANGED << loaded, loading, tstate, targ, nthr, ndoc, 
                               results, cachew, cache, reload, epoch, ver, ret, 
                               stack, u, jt, v, i, doc, w, newt, k >>

DfStart(self) == /\ pc[self] = "DfStart"
                 /\ IF tstate[st[self]] # "created"
                       THEN /\ err' = [err EXCEPT ![self] = "RuntimeError"]
                            /\ pc' = [pc EXCEPT ![self] = "DHalt"]
                            /\ UNCHANGED << tstate, stack, w, newt, st >>
                       ELSE /\ tstate' = [tstate EXCEPT ![st[self]] = "running"]
                            /\ pc' = [pc EXCEPT ![self] = Head(stack[self]).pc]
                            /\ newt' = [newt EXCEPT ![self] = Head(stack[self]).newt]
                            /\ st' = [st EXCEPT ![self] = Head(stack[self]).st]
                            /\ w' = [w EXCEPT ![self] = Head(stack[self]).w]
                            /\ stack' = [stack EXCEPT ![self] = Tail(stack[self])]
                            /\ err' = err
                 /\ UNCHANGED << loaded, loading, targ, nthr, ndoc, results, 
                                 cachew, cache, reload, epoch, ver, ret, u, jt, 
                                 v, i, doc, k >>

DHalt(self) == /\ pc[self] = "DHalt"
               /\ IF self # Main
                     THEN /\ tstate' = [tstate EXCEPT ![self] = "done"]
                     ELSE /\ TRUE
                          /\ UNCHANGED tstate
               /\ pc' = [pc EXCEPT ![self] = "DDead"]
               /\ UNCHANGED << loaded, loading, targ, nthr, ndoc, err, results, 
                               cachew, cache, reload, epoch, ver, ret, stack, 
                               u, jt, v, i, doc, w, newt, st, k >>

DDead(self) == /\ pc[self] = "DDead"
               /\ FALSE
               /\ pc' = [pc EXCEPT ![self] = "Error"]
               /\ UNCHANGED << loaded, loading, tstate, targ, nthr, ndoc, err, 
                               results, cachew, cache, reload, epoch, ver, ret, 
                               stack, u, jt, v, i, doc, w, newt, st, k >>

Deferred(self) == DfLdIn(self) \/ DfLgIn(self) \/ DfSet(self)
                     \/ DfGet(self) \/ DfStart(self) \/ DHalt(self)
                     \/ DDead(self)

MBegin(self) == /\ pc[self] = "MBegin"
                /\ TRUE
                /\ pc' = [pc EXCEPT ![self] = "MLoop"]
                /\ UNCHANGED << loaded, loading, tstate, targ, nthr, ndoc, err, 
                                results, cachew, cache, reload, epoch, ver, 
                                ret, stack, u, jt, v, i, doc, w, newt, st, k >>

MLoop(self) == /\ pc[self] = "MLoop"
               /\ IF k[self] <= Len(Prog)
                     THEN /\ IF Prog[k[self]][1] = "load"
                                THEN /\ /\ stack' = [stack EXCEPT ![self] = << [ procedure |->  "Load",
                                                                                 pc        |->  "MRes",
                                                                                 jt        |->  jt[self],
                                                                                 u         |->  u[self] ] >>
                                                                             \o stack[self]]
                                        /\ u' = [u EXCEPT ![self] = Prog[k[self]][2]]
                                     /\ jt' = [jt EXCEPT ![self] = 0]
                                     /\ pc' = [pc EXCEPT ![self] = "LdIn"]
                                     /\ UNCHANGED << reload, epoch, w, newt, 
                                                     st >>
                                ELSE /\ IF Prog[k[self]][1] = "refresh"
                                           THEN /\ reload' = TRUE
                                                /\ epoch' = epoch + 1
                                                /\ pc' = [pc EXCEPT ![self] = "RfClear"]
                                                /\ UNCHANGED << stack, w, newt, 
                                                                st >>
                                           ELSE /\ IF Prog[k[self]][1] = "touch"
                                                      THEN /\ pc' = [pc EXCEPT ![self] = "MTouch"]
                                                           /\ UNCHANGED << stack, 
                                                                           w, 
                                                                           newt, 
                                                                           st >>
                                                      ELSE /\ /\ stack' = [stack EXCEPT ![self] = << [ procedure |->  "Deferred",
                                                                                                       pc        |->  "MNext",
                                                                                                       newt      |->  newt[self],
                                                                                                       st        |->  st[self],
                                                                                                       w         |->  w[self] ] >>
                                                                                                   \o stack[self]]
                                                              /\ w' = [w EXCEPT ![self] = Prog[k[self]][2]]
                                                           /\ newt' = [newt EXCEPT ![self] = 0]
                                                           /\ st' = [st EXCEPT ![self] = 0]
                                                           /\ pc' = [pc EXCEPT ![self] = "DfLdIn"]
                                                /\ UNCHANGED << reload, epoch >>
                                     /\ UNCHANGED << u, jt >>
                     ELSE /\ pc' = [pc EXCEPT ![self] = "Done"]
                          /\ UNCHANGED << reload, epoch, stack, u, jt, w, newt, 
                                          st >>
               /\ UNCHANGED << loaded, loading, tstate, targ, nthr, ndoc, err, 
                               results, cachew, cache, ver, ret, v, i, doc, k >>

MNext(self) == /\ pc[self] = "MNext"
               /\ k' = [k EXCEPT ![self] = k[self] + 1]
               /\ pc' = [pc EXCEPT ![self] = "MLoop"]
               /\ UNCHANGED << loaded, loading, tstate, targ, nthr, ndoc, err, 
                               results, cachew, cache, reload, epoch, ver, ret, 
                               stack, u, jt, v, i, doc, w, newt, st >>

MRes(self) == /\ pc[self] = "MRes"
              /\ results' = Append(results, <<Prog[k[self]][2], ret[self], epoch>>)
              /\ pc' = [pc EXCEPT ![self] = "MNext"]
              /\ UNCHANGED << loaded, loading, tstate, targ, nthr, ndoc, err, 
                              cachew, cache, reload, epoch, ver, ret, stack, u, 
                              jt, v, i, doc, w, newt, st, k >>

RfClear(self) == /\ pc[self] = "RfClear"
                 /\ loaded' = [uu \in URLS |-> Absent]
                 /\ /\ stack' = [stack EXCEPT ![self] = << [ procedure |->  "Load",
                                                             pc        |->  "RfDone",
                                                             jt        |->  jt[self],
                                                             u         |->  u[self] ] >>
                                                         \o stack[self]]
                    /\ u' = [u EXCEPT ![self] = Prog[k[self]][2]]
                 /\ jt' = [jt EXCEPT ![self] = 0]
                 /\ pc' = [pc EXCEPT ![self] = "LdIn"]
                 /\ UNCHANGED << loading, tstate, targ, nthr, ndoc, err, 
                                 results, cachew, cache, reload, epoch, ver, 
                                 ret, v, i, doc, w, newt, st, k >>

RfDone(self) == /\ pc[self] = "RfDone"
                /\ reload' = FALSE
                /\ pc' = [pc EXCEPT ![self] = "MNext"]
                /\ UNCHANGED << loaded, loading, tstate, targ, nthr, ndoc, err, 
                                results, cachew, cache, epoch, ver, ret, stack, 
                                u, jt, v, i, doc, w, newt, st, k >>

MTouch(self) == /\ pc[self] = "MTouch"
                /\ ver' = [ver EXCEPT ![Prog[k[self]][2]] = ver[Prog[k[self]][2]] + 1]
                /\ pc' = [pc EXCEPT ![self] = "MNext"]
                /\ UNCHANGED << loaded, loading, tstate, targ, nthr, ndoc, err, 
                                results, cachew, cache, reload, epoch, ret, 
                                stack, u, jt, v, i, doc, w, newt, st, k >>

M(self) == MBegin(self) \/ MLoop(self) \/ MNext(self) \/ MRes(self)
              \/ RfClear(self) \/ RfDone(self) \/ MTouch(self)

TBegin(self) == /\ pc[self] = "TBegin"
                /\ tstate[self] = "running"
                /\ pc' = [pc EXCEPT ![self] = "TRun"]
                /\ UNCHANGED << loaded, loading, tstate, targ, nthr, ndoc, err, 
                                results, cachew, cache, reload, epoch, ver, 
                                ret, stack, u, jt, v, i, doc, w, newt, st, k >>

TRun(self) == /\ pc[self] = "TRun"
              /\ /\ stack' = [stack EXCEPT ![self] = << [ procedure |->  "RawLoad",
                                                          pc        |->  "TDone",
                                                          i         |->  i[self],
                                                          doc       |->  doc[self],
                                                          v         |->  v[self] ] >>
                                                      \o stack[self]]
                 /\ v' = [v EXCEPT ![self] = targ[self]]
              /\ i' = [i EXCEPT ![self] = 1]
              /\ doc' = [doc EXCEPT ![self] = NoneV]
              /\ pc' = [pc EXCEPT ![self] = "RFetch"]
              /\ UNCHANGED << loaded, loading, tstate, targ, nthr, ndoc, err, 
                              results, cachew, cache, reload, epoch, ver, ret, 
                              u, jt, w, newt, st, k >>

TDone(self) == /\ pc[self] = "TDone"
               /\ tstate' = [tstate EXCEPT ![self] = "done"]
               /\ pc' = [pc EXCEPT ![self] = "Done"]
               /\ UNCHANGED << loaded, loading, targ, nthr, ndoc, err, results, 
                               cachew, cache, reload, epoch, ver, ret, stack, 
                               u, jt, v, i, doc, w, newt, st, k >>

T(self) == TBegin(self) \/ TRun(self) \/ TDone(self)

(* Allow infinite stuttering to prevent deadlock on termination. *)
Terminating == /\ \A self \in ProcSet: pc[self] = "Done"
               /\ UNCHANGED vars

Next == (\E self \in ProcSet:  \/ Load(self) \/ RawLoad(self)
                               \/ Deferred(self))
           \/ (\E self \in {Main}: M(self))
           \/ (\E self \in Thr: T(self))
           \/ Terminating

Spec == Init /\ [][Next]_vars

Termination == <>(\A self \in ProcSet: pc[self] = "Done")

\* END TRANSLATION 
 

====
