---- MODULE OdmlLoader ----
(***************************************************************************)
(* C18 - background loading of terminologies is transparent in every       *)
(* schedule.  PlusCal model of odml/terminology.py at the granularity of   *)
(* accesses to the shared tables `loaded` (the Terminologies dict) and     *)
(* `loading` (url -> loader thread) and of thread create / start / join.   *)
(* cache_load is one atomic step (the property's stated granularity).      *)
(* Include recursion runs through the PlusCal call stack:                  *)
(*   RawLoad(v) parses v and, for every url u in IncSeq(v), calls          *)
(*   Deferred(u); Load(u)  (Section.include: deferred_load then load).     *)
(* touch(u) (caller only) stands for the resource changing at its source.   *)
(* refresh(u) sets the reload flag, clears the loaded table in one step,    *)
(* loads u and resets the flag.  The download cache is a function          *)
(* url -> "absent" | "fresh" | "stale": a fresh copy is used without a     *)
(* fetch unless the reload flag is set; everything else fetches, and only  *)
(* a successful fetch writes the cache (CacheInit: its state at the start).*)
(* TLoad / TRawLoad / TDeferred model odml/templates.py (TemplateHandler): own *)
(* tables, failed loads not kept, includes through the terminology loader.  *)
(* Labels that correspond to an observable access of the real code carry   *)
(* the same name in the scheduler's event log (see LoaderTrace.tla).       *)
(***************************************************************************)
EXTENDS Naturals, Sequences, FiniteSets, TLC
CONSTANTS URLS, Inc, Fetch, Parse, MaxThr, Prog, CacheInit,
          FlatIncludes     \* TRUE: the including Sections are top-level Sections of their own - a document asks only for the files it includes directly
Absent == 0          \* url not in the table
NoneV == 99          \* Python None (resource could not be fetched or parsed)
Thr == 1..MaxThr
Main == 0
Procs == {Main} \cup Thr
\* finalize() of a parsed document resolves its includes breadth first, and then the includes of
\* the Sections the resolution copied in (they keep their include attribute): the sequence of
\* urls it asks for is the breadth-first closure of the include graph below v
Usable(x) == Fetch[x] /\ Parse[x]
RECURSIVE Flat(_)
Flat(ss) == IF ss = <<>> THEN <<>> ELSE (IF Usable(Head(ss)) THEN Inc[Head(ss)] ELSE <<>>) \o Flat(Tail(ss))
RECURSIVE Levels(_, _)
Levels(lv, n) == IF lv = <<>> \/ n = 0 THEN <<>> ELSE lv \o Levels(Flat(lv), n - 1)
IncSeq(x) == IF FlatIncludes THEN Inc[x] ELSE Levels(Inc[x], Cardinality(URLS))

(* --algorithm Loader {
variables loaded = [uu \in URLS |-> Absent],     \* Terminologies dict: url -> document id | NoneV
          loading = [uu \in URLS |-> 0],          \* url -> thread id (0: no entry)
          tstate = [tt \in Thr |-> "unborn"],     \* unborn / created / running / done
          targ = [tt \in Thr |-> "nourl"],
          tkind = [tt \in Thr |-> "term"],         \* what the thread runs: Terminologies._load ("term") or TemplateHandler._load ("tmpl")
          tloaded = [uu \in URLS |-> Absent],      \* the TemplateHandler's own dict: url -> document id (a failed load is not kept)
          tloading = [uu \in URLS |-> 0],          \* TemplateHandler.loading: url -> thread id
          nthr = 0,
          ndoc = 0,                               \* documents parsed so far (fresh ids)
          err = [pp \in Procs |-> "ok"],          \* exception that killed the process
          results = <<>>,                         \* <<url, value, epoch, usable now>> of every load() the caller finished
          cachew = {},                            \* urls whose cache file was written
          cache = CacheInit,                      \* url -> "absent" | "fresh" | "stale"
          reload = FALSE,                         \* Terminologies.reload_cache
          epoch = 0,                              \* number of refresh calls the caller has begun
          avail = Fetch,                          \* which resources can be fetched right now ("appear" makes a missing one available)
          ver = [uu \in URLS |-> 0],              \* how often the caller has changed the resource at its source ("touch")
          ret = [pp \in Procs |-> Absent];

procedure Load(u)
  variables jt = 0;
{
 LdIn:  if (loaded[u] # Absent) {
 LdGet:    ret[self] := loaded[u]; return; };
 LgIn:  if (loading[u] # 0) {
 LgGet:    jt := loading[u];
           if (jt = 0) { err[self] := "KeyError"; goto Halt; };
 Join:     if (tstate[jt] = "created") { err[self] := "RuntimeError"; goto Halt; }
           else if (tstate[jt] # "done") {
 Joined:      await tstate[jt] = "done"; };
 LgPop:    loading[u] := 0;
           call Load(u);
 LdRet:    return; };
 Raw:   call RawLoad(u);
 RawRet: return;
 Halt:  if (self # Main) { tstate[self] := "done"; };       \* a loader thread that dies of an exception has ended: joining it returns
 HDead: await FALSE;
}

procedure RawLoad(v)
  variables i = 1, doc = NoneV;
{
 RFetch: if (cache[v] = "fresh" /\ ~reload) { skip; }               \* served from the cache, no fetch
         else if (~avail[v]) { ret[self] := NoneV; return; }        \* a failed fetch leaves the cache alone
         else { cachew := cachew \cup {v}; cache[v] := "fresh"; };
 RParse: if (~Parse[v]) { doc := NoneV; goto Pub; } else { ndoc := ndoc + 1; doc := ndoc; };
 Loop:   while (i <= Len(IncSeq(v))) {
            call Deferred(IncSeq(v)[i]);
 IncLoad:   call Load(IncSeq(v)[i]);
 IncNext:   i := i + 1;
         };
 Pub:    loaded[v] := doc; ret[self] := doc; return;
}

procedure Deferred(w)
  variables newt = 0, st = 0;
{
 DfLdIn: if (loaded[w] # Absent) { return; };
 DfLgIn: if (loading[w] # 0) { return; } else { nthr := nthr + 1; newt := nthr; tstate[nthr] := "created"; targ[nthr] := w; };
 DfSet:  loading[w] := newt;
 DfGet:  st := loading[w];
         if (st = 0) { err[self] := "KeyError"; goto DHalt; };
 DfStart: if (tstate[st] # "created") { err[self] := "RuntimeError"; goto DHalt; }     \* Thread.start() of a thread that was started before
          else { tstate[st] := "running"; return; };
 DHalt: if (self # Main) { tstate[self] := "done"; };
 DDead: await FALSE;
}

\* ---- odml/templates.py: TemplateHandler.load / _load / deferred_load.  Own tables; a resource that cannot be fetched or
\* parsed gives None and is NOT entered into the table; the includes of a template go through the terminology loader above.
procedure TLoad(tu)
  variables tjt = 0;
{
 TLdIn:  if (tloaded[tu] # Absent) {
 TLdGet:    ret[self] := tloaded[tu]; return; };
 TLgIn:  if (tloading[tu] # 0) {
 TLgGet:    tjt := tloading[tu];
            if (tjt = 0) { err[self] := "KeyError"; goto THalt; };
 TJoin:     if (tstate[tjt] = "created") { err[self] := "RuntimeError"; goto THalt; }
            else if (tstate[tjt] # "done") {
 TJoined:      await tstate[tjt] = "done"; };
 TLgPop:    tloading[tu] := 0;
            call TLoad(tu);
 TLdRet:    return; };
 TRaw:   call TRawLoad(tu);
 TRawRet: return;
 THalt:  if (self # Main) { tstate[self] := "done"; };
 THDead: await FALSE;
}

procedure TRawLoad(tv)
  variables ti = 1, tdoc = NoneV;
{
 TRFetch: if (cache[tv] = "fresh") { skip; }                          \* templates.cache_load knows no reload flag
          else if (~avail[tv]) { ret[self] := NoneV; return; }
          else { cachew := cachew \cup {tv}; cache[tv] := "fresh"; };
 TRParse: if (~Parse[tv]) { ret[self] := NoneV; return; } else { ndoc := ndoc + 1; tdoc := ndoc; };
 TLoop:   while (ti <= Len(IncSeq(tv))) {
             call Deferred(IncSeq(tv)[ti]);
 TIncLoad:   call Load(IncSeq(tv)[ti]);
 TIncNext:   ti := ti + 1;
          };
 TPub:    tloaded[tv] := tdoc; ret[self] := tdoc; return;
}

procedure TDeferred(tw)
  variables tnewt = 0, tst = 0;
{
 TDfLdIn: if (tloaded[tw] # Absent) { return; };
 TDfLgIn: if (tloading[tw] # 0) { return; } else { nthr := nthr + 1; tnewt := nthr; tstate[nthr] := "created"; targ[nthr] := tw; tkind[nthr] := "tmpl"; };
 TDfSet:  tloading[tw] := tnewt;
 TDfGet:  tst := tloading[tw];
          if (tst = 0) { err[self] := "KeyError"; goto TDHalt; };
 TDfStart: if (tstate[tst] # "created") { err[self] := "RuntimeError"; goto TDHalt; }
           else { tstate[tst] := "running"; return; };
 TDHalt: if (self # Main) { tstate[self] := "done"; };
 TDDead: await FALSE;
}

process (M \in {Main})
  variables k = 1;
{
 MBegin: skip;
 MLoop: while (k <= Len(Prog)) {
          if (Prog[k][1] = "load") {
             call Load(Prog[k][2]);
 MRes:       results := Append(results, <<Prog[k][2], ret[self], epoch, avail[Prog[k][2]] /\ Parse[Prog[k][2]]>>);
          } else if (Prog[k][1] = "refresh") {
             reload := TRUE; epoch := epoch + 1;
 RfClear:    loaded := [uu \in URLS |-> Absent];
             call Load(Prog[k][2]);
 RfDone:     reload := FALSE;
          } else if (Prog[k][1] = "tload") {
             call TLoad(Prog[k][2]);
 TMRes:      results := Append(results, <<Prog[k][2], ret[self], epoch, avail[Prog[k][2]] /\ Parse[Prog[k][2]]>>);
          } else if (Prog[k][1] = "tdeferred") {
             call TDeferred(Prog[k][2]);
          } else if (Prog[k][1] = "appear") {
 MAppear:    avail[Prog[k][2]] := TRUE;                  \* a resource that could not be fetched becomes available
          } else if (Prog[k][1] = "touch") {
 MTouch:     ver[Prog[k][2]] := ver[Prog[k][2]] + 1;     \* the resource changes at its source; caches and tables do not notice
          } else {
             call Deferred(Prog[k][2]);
          };
 MNext:   k := k + 1;
        };
}

process (T \in Thr)
{
 TBegin: await tstate[self] = "running";
 TRun:   if (tkind[self] = "tmpl") { call TRawLoad(targ[self]); } else { call RawLoad(targ[self]); };
 TDone:  tstate[self] := "done";
}
} *)
\* BEGIN TRANSLATION
CONSTANT defaultInitValue
VARIABLES pc, loaded, loading, tstate, targ, tkind, tloaded, tloading, nthr, 
          ndoc, err, results, cachew, cache, reload, epoch, avail, ver, ret, 
          stack, u, jt, v, i, doc, w, newt, st, tu, tjt, tv, ti, tdoc, tw, 
          tnewt, tst, k

vars == << pc, loaded, loading, tstate, targ, tkind, tloaded, tloading, nthr, 
           ndoc, err, results, cachew, cache, reload, epoch, avail, ver, ret, 
           stack, u, jt, v, i, doc, w, newt, st, tu, tjt, tv, ti, tdoc, tw, 
           tnewt, tst, k >>

ProcSet == ({Main}) \cup (Thr)

Init == (* Global variables *)
        /\ loaded = [uu \in URLS |-> Absent]
        /\ loading = [uu \in URLS |-> 0]
        /\ tstate = [tt \in Thr |-> "unborn"]
        /\ targ = [tt \in Thr |-> "nourl"]
        /\ tkind = [tt \in Thr |-> "term"]
        /\ tloaded = [uu \in URLS |-> Absent]
        /\ tloading = [uu \in URLS |-> 0]
        /\ nthr = 0
        /\ ndoc = 0
        /\ err = [pp \in Procs |-> "ok"]
        /\ results = <<>>
        /\ cachew = {}
        /\ cache = CacheInit
        /\ reload = FALSE
        /\ epoch = 0
        /\ avail = Fetch
        /\ ver = [uu \in URLS |-> 0]
        /\ ret = [pp \in Procs |-> Absent]
        (* Procedure Load *)
        /\ u = [ self \in ProcSet |-> defaultInitValue]
        /\ jt = [ self \in ProcSet |-> 0]
        (* Procedure RawLoad *)
        /\ v = [ self \in ProcSet |-> defaultInitValue]
        /\ i = [ self \in ProcSet |-> 1]
        /\ doc = [ self \in ProcSet |-> NoneV]
        (* Procedure Deferred *)
        /\ w = [ self \in ProcSet |-> defaultInitValue]
        /\ newt = [ self \in ProcSet |-> 0]
        /\ st = [ self \in ProcSet |-> 0]
        (* Procedure TLoad *)
        /\ tu = [ self \in ProcSet |-> defaultInitValue]
        /\ tjt = [ self \in ProcSet |-> 0]
        (* Procedure TRawLoad *)
        /\ tv = [ self \in ProcSet |-> defaultInitValue]
        /\ ti = [ self \in ProcSet |-> 1]
        /\ tdoc = [ self \in ProcSet |-> NoneV]
        (* Procedure TDeferred *)
        /\ tw = [ self \in ProcSet |-> defaultInitValue]
        /\ tnewt = [ self \in ProcSet |-> 0]
        /\ tst = [ self \in ProcSet |-> 0]
        (* Process M *)
        /\ k = [self \in {Main} |-> 1]
        /\ stack = [self \in ProcSet |-> << >>]
        /\ pc = [self \in ProcSet |-> CASE self \in {Main} -> "MBegin"
                                        [] self \in Thr -> "TBegin"]

LdIn(self) == /\ pc[self] = "LdIn"
              /\ IF loaded[u[self]] # Absent
                    THEN /\ pc' = [pc EXCEPT ![self] = "LdGet"]
                    ELSE /\ pc' = [pc EXCEPT ![self] = "LgIn"]
              /\ UNCHANGED << loaded, loading, tstate, targ, tkind, tloaded, 
                              tloading, nthr, ndoc, err, results, cachew, 
                              cache, reload, epoch, avail, ver, ret, stack, u, 
                              jt, v, i, doc, w, newt, st, tu, tjt, tv, ti, 
                              tdoc, tw, tnewt, tst, k >>

LdGet(self) == /\ pc[self] = "LdGet"
               /\ ret' = [ret EXCEPT ![self] = loaded[u[self]]]
               /\ pc' = [pc EXCEPT ![self] = Head(stack[self]).pc]
               /\ jt' = [jt EXCEPT ![self] = Head(stack[self]).jt]
               /\ u' = [u EXCEPT ![self] = Head(stack[self]).u]
               /\ stack' = [stack EXCEPT ![self] = Tail(stack[self])]
               /\ UNCHANGED << loaded, loading, tstate, targ, tkind, tloaded, 
                               tloading, nthr, ndoc, err, results, cachew, 
                               cache, reload, epoch, avail, ver, v, i, doc, w, 
                               newt, st, tu, tjt, tv, ti, tdoc, tw, tnewt, tst, 
                               k >>

LgIn(self) == /\ pc[self] = "LgIn"
              /\ IF loading[u[self]] # 0
                    THEN /\ pc' = [pc EXCEPT ![self] = "LgGet"]
                    ELSE /\ pc' = [pc EXCEPT ![self] = "Raw"]
              /\ UNCHANGED << loaded, loading, tstate, targ, tkind, tloaded, 
                              tloading, nthr, ndoc, err, results, cachew, 
                              cache, reload, epoch, avail, ver, ret, stack, u, 
                              jt, v, i, doc, w, newt, st, tu, tjt, tv, ti, 
                              tdoc, tw, tnewt, tst, k >>

LgGet(self) == /\ pc[self] = "LgGet"
               /\ jt' = [jt EXCEPT ![self] = loading[u[self]]]
               /\ IF jt'[self] = 0
                     THEN /\ err' = [err EXCEPT ![self] = "KeyError"]
                          /\ pc' = [pc EXCEPT ![self] = "Halt"]
                     ELSE /\ pc' = [pc EXCEPT ![self] = "Join"]
                          /\ err' = err
               /\ UNCHANGED << loaded, loading, tstate, targ, tkind, tloaded, 
                               tloading, nthr, ndoc, results, cachew, cache, 
                               reload, epoch, avail, ver, ret, stack, u, v, i, 
                               doc, w, newt, st, tu, tjt, tv, ti, tdoc, tw, 
                               tnewt, tst, k >>

Join(self) == /\ pc[self] = "Join"
              /\ IF tstate[jt[self]] = "created"
                    THEN /\ err' = [err EXCEPT ![self] = "RuntimeError"]
                         /\ pc' = [pc EXCEPT ![self] = "Halt"]
                    ELSE /\ IF tstate[jt[self]] # "done"
                               THEN /\ pc' = [pc EXCEPT ![self] = "Joined"]
                               ELSE /\ pc' = [pc EXCEPT ![self] = "LgPop"]
                         /\ err' = err
              /\ UNCHANGED << loaded, loading, tstate, targ, tkind, tloaded, 
                              tloading, nthr, ndoc, results, cachew, cache, 
                              reload, epoch, avail, ver, ret, stack, u, jt, v, 
                              i, doc, w, newt, st, tu, tjt, tv, ti, tdoc, tw, 
                              tnewt, tst, k >>

Joined(self) == /\ pc[self] = "Joined"
                /\ tstate[jt[self]] = "done"
                /\ pc' = [pc EXCEPT ![self] = "LgPop"]
                /\ UNCHANGED << loaded, loading, tstate, targ, tkind, tloaded, 
                                tloading, nthr, ndoc, err, results, cachew, 
                                cache, reload, epoch, avail, ver, ret, stack, 
                                u, jt, v, i, doc, w, newt, st, tu, tjt, tv, ti, 
                                tdoc, tw, tnewt, tst, k >>

LgPop(self) == /\ pc[self] = "LgPop"
               /\ loading' = [loading EXCEPT ![u[self]] = 0]
               /\ /\ stack' = [stack EXCEPT ![self] = << [ procedure |->  "Load",
                                                           pc        |->  "LdRet",
                                                           jt        |->  jt[self],
                                                           u         |->  u[self] ] >>
                                                       \o stack[self]]
                  /\ u' = [u EXCEPT ![self] = u[self]]
               /\ jt' = [jt EXCEPT ![self] = 0]
               /\ pc' = [pc EXCEPT ![self] = "LdIn"]
               /\ UNCHANGED << loaded, tstate, targ, tkind, tloaded, tloading, 
                               nthr, ndoc, err, results, cachew, cache, reload, 
                               epoch, avail, ver, ret, v, i, doc, w, newt, st, 
                               tu, tjt, tv, ti, tdoc, tw, tnewt, tst, k >>

LdRet(self) == /\ pc[self] = "LdRet"
               /\ pc' = [pc EXCEPT ![self] = Head(stack[self]).pc]
               /\ jt' = [jt EXCEPT ![self] = Head(stack[self]).jt]
               /\ u' = [u EXCEPT ![self] = Head(stack[self]).u]
               /\ stack' = [stack EXCEPT ![self] = Tail(stack[self])]
               /\ UNCHANGED << loaded, loading, tstate, targ, tkind, tloaded, 
                               tloading, nthr, ndoc, err, results, cachew, 
                               cache, reload, epoch, avail, ver, ret, v, i, 
                               doc, w, newt, st, tu, tjt, tv, ti, tdoc, tw, 
                               tnewt, tst, k >>

Raw(self) == /\ pc[self] = "Raw"
             /\ /\ stack' = [stack EXCEPT ![self] = << [ procedure |->  "RawLoad",
                                                         pc        |->  "RawRet",
                                                         i         |->  i[self],
                                                         doc       |->  doc[self],
                                                         v         |->  v[self] ] >>
                                                     \o stack[self]]
                /\ v' = [v EXCEPT ![self] = u[self]]
             /\ i' = [i EXCEPT ![self] = 1]
             /\ doc' = [doc EXCEPT ![self] = NoneV]
             /\ pc' = [pc EXCEPT ![self] = "RFetch"]
             /\ UNCHANGED << loaded, loading, tstate, targ, tkind, tloaded, 
                             tloading, nthr, ndoc, err, results, cachew, cache, 
                             reload, epoch, avail, ver, ret, u, jt, w, newt, 
                             st, tu, tjt, tv, ti, tdoc, tw, tnewt, tst, k >>

RawRet(self) == /\ pc[self] = "RawRet"
                /\ pc' = [pc EXCEPT ![self] = Head(stack[self]).pc]
                /\ jt' = [jt EXCEPT ![self] = Head(stack[self]).jt]
                /\ u' = [u EXCEPT ![self] = Head(stack[self]).u]
                /\ stack' = [stack EXCEPT ![self] = Tail(stack[self])]
                /\ UNCHANGED << loaded, loading, tstate, targ, tkind, tloaded, 
                                tloading, nthr, ndoc, err, results, cachew, 
                                cache, reload, epoch, avail, ver, ret, v, i, 
                                doc, w, newt, st, tu, tjt, tv, ti, tdoc, tw, 
                                tnewt, tst, k >>

Halt(self) == /\ pc[self] = "Halt"
              /\ IF self # Main
                    THEN /\ tstate' = [tstate EXCEPT ![self] = "done"]
                    ELSE /\ TRUE
                         /\ UNCHANGED tstate
              /\ pc' = [pc EXCEPT ![self] = "HDead"]
              /\ UNCHANGED << loaded, loading, targ, tkind, tloaded, tloading, 
                              nthr, ndoc, err, results, cachew, cache, reload, 
                              epoch, avail, ver, ret, stack, u, jt, v, i, doc, 
                              w, newt, st, tu, tjt, tv, ti, tdoc, tw, tnewt, 
                              tst, k >>

HDead(self) == /\ pc[self] = "HDead"
               /\ FALSE
               /\ pc' = [pc EXCEPT ![self] = "Error"]
               /\ UNCHANGED << loaded, loading, tstate, targ, tkind, tloaded, 
                               tloading, nthr, ndoc, err, results, cachew, 
                               cache, reload, epoch, avail, ver, ret, stack, u, 
                               jt, v, i, doc, w, newt, st, tu, tjt, tv, ti, 
                               tdoc, tw, tnewt, tst, k >>

Load(self) == LdIn(self) \/ LdGet(self) \/ LgIn(self) \/ LgGet(self)
                 \/ Join(self) \/ Joined(self) \/ LgPop(self)
                 \/ LdRet(self) \/ Raw(self) \/ RawRet(self) \/ Halt(self)
                 \/ HDead(self)

RFetch(self) == /\ pc[self] = "RFetch"
                /\ IF cache[v[self]] = "fresh" /\ ~reload
                      THEN /\ TRUE
                           /\ pc' = [pc EXCEPT ![self] = "RParse"]
                           /\ UNCHANGED << cachew, cache, ret, stack, v, i, 
                                           doc >>
                      ELSE /\ IF ~avail[v[self]]
                                 THEN /\ ret' = [ret EXCEPT ![self] = NoneV]
                                      /\ pc' = [pc EXCEPT ![self] = Head(stack[self]).pc]
                                      /\ i' = [i EXCEPT ![self] = Head(stack[self]).i]
                                      /\ doc' = [doc EXCEPT ![self] = Head(stack[self]).doc]
                                      /\ v' = [v EXCEPT ![self] = Head(stack[self]).v]
                                      /\ stack' = [stack EXCEPT ![self] = Tail(stack[self])]
                                      /\ UNCHANGED << cachew, cache >>
                                 ELSE /\ cachew' = (cachew \cup {v[self]})
                                      /\ cache' = [cache EXCEPT ![v[self]] = "fresh"]
                                      /\ pc' = [pc EXCEPT ![self] = "RParse"]
                                      /\ UNCHANGED << ret, stack, v, i, doc >>
                /\ UNCHANGED << loaded, loading, tstate, targ, tkind, tloaded, 
                                tloading, nthr, ndoc, err, results, reload, 
                                epoch, avail, ver, u, jt, w, newt, st, tu, tjt, 
                                tv, ti, tdoc, tw, tnewt, tst, k >>

RParse(self) == /\ pc[self] = "RParse"
                /\ IF ~Parse[v[self]]
                      THEN /\ doc' = [doc EXCEPT ![self] = NoneV]
                           /\ pc' = [pc EXCEPT ![self] = "Pub"]
                           /\ ndoc' = ndoc
                      ELSE /\ ndoc' = ndoc + 1
                           /\ doc' = [doc EXCEPT ![self] = ndoc']
                           /\ pc' = [pc EXCEPT ![self] = "Loop"]
                /\ UNCHANGED << loaded, loading, tstate, targ, tkind, tloaded, 
                                tloading, nthr, err, results, cachew, cache, 
                                reload, epoch, avail, ver, ret, stack, u, jt, 
                                v, i, w, newt, st, tu, tjt, tv, ti, tdoc, tw, 
                                tnewt, tst, k >>

Loop(self) == /\ pc[self] = "Loop"
              /\ IF i[self] <= Len(IncSeq(v[self]))
                    THEN /\ /\ stack' = [stack EXCEPT ![self] = << [ procedure |->  "Deferred",
                                                                     pc        |->  "IncLoad",
                                                                     newt      |->  newt[self],
                                                                     st        |->  st[self],
                                                                     w         |->  w[self] ] >>
                                                                 \o stack[self]]
                            /\ w' = [w EXCEPT ![self] = IncSeq(v[self])[i[self]]]
                         /\ newt' = [newt EXCEPT ![self] = 0]
                         /\ st' = [st EXCEPT ![self] = 0]
                         /\ pc' = [pc EXCEPT ![self] = "DfLdIn"]
                    ELSE /\ pc' = [pc EXCEPT ![self] = "Pub"]
                         /\ UNCHANGED << stack, w, newt, st >>
              /\ UNCHANGED << loaded, loading, tstate, targ, tkind, tloaded, 
                              tloading, nthr, ndoc, err, results, cachew, 
                              cache, reload, epoch, avail, ver, ret, u, jt, v, 
                              i, doc, tu, tjt, tv, ti, tdoc, tw, tnewt, tst, k >>

IncLoad(self) == /\ pc[self] = "IncLoad"
                 /\ /\ stack' = [stack EXCEPT ![self] = << [ procedure |->  "Load",
                                                             pc        |->  "IncNext",
                                                             jt        |->  jt[self],
                                                             u         |->  u[self] ] >>
                                                         \o stack[self]]
                    /\ u' = [u EXCEPT ![self] = IncSeq(v[self])[i[self]]]
                 /\ jt' = [jt EXCEPT ![self] = 0]
                 /\ pc' = [pc EXCEPT ![self] = "LdIn"]
                 /\ UNCHANGED << loaded, loading, tstate, targ, tkind, tloaded, 
                                 tloading, nthr, ndoc, err, results, cachew, 
                                 cache, reload, epoch, avail, ver, ret, v, i, 
                                 doc, w, newt, st, tu, tjt, tv, ti, tdoc, tw, 
                                 tnewt, tst, k >>

IncNext(self) == /\ pc[self] = "IncNext"
                 /\ i' = [i EXCEPT ![self] = i[self] + 1]
                 /\ pc' = [pc EXCEPT ![self] = "Loop"]
                 /\ UNCHANGED << loaded, loading, tstate, targ, tkind, tloaded, 
                                 tloading, nthr, ndoc, err, results, cachew, 
                                 cache, reload, epoch, avail, ver, ret, stack, 
                                 u, jt, v, doc, w, newt, st, tu, tjt, tv, ti, 
                                 tdoc, tw, tnewt, tst, k >>

Pub(self) == /\ pc[self] = "Pub"
             /\ loaded' = [loaded EXCEPT ![v[self]] = doc[self]]
             /\ ret' = [ret EXCEPT ![self] = doc[self]]
             /\ pc' = [pc EXCEPT ![self] = Head(stack[self]).pc]
             /\ i' = [i EXCEPT ![self] = Head(stack[self]).i]
             /\ doc' = [doc EXCEPT ![self] = Head(stack[self]).doc]
             /\ v' = [v EXCEPT ![self] = Head(stack[self]).v]
             /\ stack' = [stack EXCEPT ![self] = Tail(stack[self])]
             /\ UNCHANGED << loading, tstate, targ, tkind, tloaded, tloading, 
                             nthr, ndoc, err, results, cachew, cache, reload, 
                             epoch, avail, ver, u, jt, w, newt, st, tu, tjt, 
                             tv, ti, tdoc, tw, tnewt, tst, k >>

RawLoad(self) == RFetch(self) \/ RParse(self) \/ Loop(self)
                    \/ IncLoad(self) \/ IncNext(self) \/ Pub(self)

DfLdIn(self) == /\ pc[self] = "DfLdIn"
                /\ IF loaded[w[self]] # Absent
                      THEN /\ pc' = [pc EXCEPT ![self] = Head(stack[self]).pc]
                           /\ newt' = [newt EXCEPT ![self] = Head(stack[self]).newt]
                           /\ st' = [st EXCEPT ![self] = Head(stack[self]).st]
                           /\ w' = [w EXCEPT ![self] = Head(stack[self]).w]
                           /\ stack' = [stack EXCEPT ![self] = Tail(stack[self])]
                      ELSE /\ pc' = [pc EXCEPT ![self] = "DfLgIn"]
                           /\ UNCHANGED << stack, w, newt, st >>
                /\ UNCHANGED << loaded, loading, tstate, targ, tkind, tloaded, 
                                tloading, nthr, ndoc, err, results, cachew, 
                                cache, reload, epoch, avail, ver, ret, u, jt, 
                                v, i, doc, tu, tjt, tv, ti, tdoc, tw, tnewt, 
                                tst, k >>

DfLgIn(self) == /\ pc[self] = "DfLgIn"
                /\ IF loading[w[self]] # 0
                      THEN /\ pc' = [pc EXCEPT ![self] = Head(stack[self]).pc]
                           /\ newt' = [newt EXCEPT ![self] = Head(stack[self]).newt]
                           /\ st' = [st EXCEPT ![self] = Head(stack[self]).st]
                           /\ w' = [w EXCEPT ![self] = Head(stack[self]).w]
                           /\ stack' = [stack EXCEPT ![self] = Tail(stack[self])]
                           /\ UNCHANGED << tstate, targ, nthr >>
                      ELSE /\ nthr' = nthr + 1
                           /\ newt' = [newt EXCEPT ![self] = nthr']
                           /\ tstate' = [tstate EXCEPT ![nthr'] = "created"]
                           /\ targ' = [targ EXCEPT ![nthr'] = w[self]]
                           /\ pc' = [pc EXCEPT ![self] = "DfSet"]
                           /\ UNCHANGED << stack, w, st >>
                /\ UNCHANGED << loaded, loading, tkind, tloaded, tloading, 
                                ndoc, err, results, cachew, cache, reload, 
                                epoch, avail, ver, ret, u, jt, v, i, doc, tu, 
                                tjt, tv, ti, tdoc, tw, tnewt, tst, k >>

DfSet(self) == /\ pc[self] = "DfSet"
               /\ loading' = [loading EXCEPT ![w[self]] = newt[self]]
               /\ pc' = [pc EXCEPT ![self] = "DfGet"]
               /\ UNCHANGED << loaded, tstate, targ, tkind, tloaded, tloading, 
                               nthr, ndoc, err, results, cachew, cache, reload, 
                               epoch, avail, ver, ret, stack, u, jt, v, i, doc, 
                               w, newt, st, tu, tjt, tv, ti, tdoc, tw, tnewt, 
                               tst, k >>

DfGet(self) == /\ pc[self] = "DfGet"
               /\ st' = [st EXCEPT ![self] = loading[w[self]]]
               /\ IF st'[self] = 0
                     THEN /\ err' = [err EXCEPT ![self] = "KeyError"]
                          /\ pc' = [pc EXCEPT ![self] = "DHalt"]
                     ELSE /\ pc' = [pc EXCEPT ![self] = "DfStart"]
                          /\ err' = err
               /\ UNCHANGED << loaded, loading, tstate, targ, tkind, tloaded, 
                               tloading, nthr, ndoc, results, cachew, cache, 
                               reload, epoch, avail, ver, ret, stack, u, jt, v, 
                               i, doc, w, newt, tu, tjt, tv, ti, tdoc, tw, 
                               tnewt, tst, k >>

DfStart(self) == /\ pc[self] = "DfStart"
                 /\ IF tstate[st[self]] # "created"
                       THEN /\ err' = [err EXCEPT ![self] = "RuntimeError"]
                            /\ pc' = [pc EXCEPT ![self] = "DHalt"]
                            /\ UNCHANGED << tstate, stack, w, newt, st >>
                       ELSE /\ tstate' = [tstate EXCEPT ![st[self]] = "running"]
                            /\ pc' = [pc EXCEPT ![self] = Head(stack[self]).pc]
                            /\ newt' = [newt EXCEPT ![self] = Head(stack[self]).newt]
                            /\ st' = [st EXCEPT ![self] = Head(stack[self]).st]
                            /\ w' = [w EXCEPT ![self] = Head(stack[self]).w]
                            /\ stack' = [stack EXCEPT ![self] = Tail(stack[self])]
                            /\ err' = err
                 /\ UNCHANGED << loaded, loading, targ, tkind, tloaded, 
                                 tloading, nthr, ndoc, results, cachew, cache, 
                                 reload, epoch, avail, ver, ret, u, jt, v, i, 
                                 doc, tu, tjt, tv, ti, tdoc, tw, tnewt, tst, k >>

DHalt(self) == /\ pc[self] = "DHalt"
               /\ IF self # Main
                     THEN /\ tstate' = [tstate EXCEPT ![self] = "done"]
                     ELSE /\ TRUE
                          /\ UNCHANGED tstate
               /\ pc' = [pc EXCEPT ![self] = "DDead"]
               /\ UNCHANGED << loaded, loading, targ, tkind, tloaded, tloading, 
                               nthr, ndoc, err, results, cachew, cache, reload, 
                               epoch, avail, ver, ret, stack, u, jt, v, i, doc, 
                               w, newt, st, tu, tjt, tv, ti, tdoc, tw, tnewt, 
                               tst, k >>

DDead(self) == /\ pc[self] = "DDead"
               /\ FALSE
               /\ pc' = [pc EXCEPT ![self] = "Error"]
               /\ UNCHANGED << loaded, loading, tstate, targ, tkind, tloaded, 
                               tloading, nthr, ndoc, err, results, cachew, 
                               cache, reload, epoch, avail, ver, ret, stack, u, 
                               jt, v, i, doc, w, newt, st, tu, tjt, tv, ti, 
                               tdoc, tw, tnewt, tst, k >>

Deferred(self) == DfLdIn(self) \/ DfLgIn(self) \/ DfSet(self)
                     \/ DfGet(self) \/ DfStart(self) \/ DHalt(self)
                     \/ DDead(self)

TLdIn(self) == /\ pc[self] = "TLdIn"
               /\ IF tloaded[tu[self]] # Absent
                     THEN /\ pc' = [pc EXCEPT ![self] = "TLdGet"]
                     ELSE /\ pc' = [pc EXCEPT ![self] = "TLgIn"]
               /\ UNCHANGED << loaded, loading, tstate, targ, tkind, tloaded, 
                               tloading, nthr, ndoc, err, results, cachew, 
                               cache, reload, epoch, avail, ver, ret, stack, u, 
                               jt, v, i, doc, w, newt, st, tu, tjt, tv, ti, 
                               tdoc, tw, tnewt, tst, k >>

TLdGet(self) == /\ pc[self] = "TLdGet"
                /\ ret' = [ret EXCEPT ![self] = tloaded[tu[self]]]
                /\ pc' = [pc EXCEPT ![self] = Head(stack[self]).pc]
                /\ tjt' = [tjt EXCEPT ![self] = Head(stack[self]).tjt]
                /\ tu' = [tu EXCEPT ![self] = Head(stack[self]).tu]
                /\ stack' = [stack EXCEPT ![self] = Tail(stack[self])]
                /\ UNCHANGED << loaded, loading, tstate, targ, tkind, tloaded, 
                                tloading, nthr, ndoc, err, results, cachew, 
                                cache, reload, epoch, avail, ver, u, jt, v, i, 
                                doc, w, newt, st, tv, ti, tdoc, tw, tnewt, tst, 
                                k >>

TLgIn(self) == /\ pc[self] = "TLgIn"
               /\ IF tloading[tu[self]] # 0
                     THEN /\ pc' = [pc EXCEPT ![self] = "TLgGet"]
                     ELSE /\ pc' = [pc EXCEPT ![self] = "TRaw"]
               /\ UNCHANGED << loaded, loading, tstate, targ, tkind, tloaded, 
                               tloading, nthr, ndoc, err, results, cachew, 
                               cache, reload, epoch, avail, ver, ret, stack, u, 
                               jt, v, i, doc, w, newt, st, tu, tjt, tv, ti, 
                               tdoc, tw, tnewt, tst, k >>

TLgGet(self) == /\ pc[self] = "TLgGet"
                /\ tjt' = [tjt EXCEPT ![self] = tloading[tu[self]]]
                /\ IF tjt'[self] = 0
                      THEN /\ err' = [err EXCEPT ![self] = "KeyError"]
                           /\ pc' = [pc EXCEPT ![self] = "THalt"]
                      ELSE /\ pc' = [pc EXCEPT ![self] = "TJoin"]
                           /\ err' = err
                /\ UNCHANGED << loaded, loading, tstate, targ, tkind, tloaded, 
                                tloading, nthr, ndoc, results, cachew, cache, 
                                reload, epoch, avail, ver, ret, stack, u, jt, 
                                v, i, doc, w, newt, st, tu, tv, ti, tdoc, tw, 
                                tnewt, tst, k >>

TJoin(self) == /\ pc[self] = "TJoin"
               /\ IF tstate[tjt[self]] = "created"
                     THEN /\ err' = [err EXCEPT ![self] = "RuntimeError"]
                          /\ pc' = [pc EXCEPT ![self] = "THalt"]
                     ELSE /\ IF tstate[tjt[self]] # "done"
                                THEN /\ pc' = [pc EXCEPT ![self] = "TJoined"]
                                ELSE /\ pc' = [pc EXCEPT ![self] = "TLgPop"]
                          /\ err' = err
               /\ UNCHANGED << loaded, loading, tstate, targ, tkind, tloaded, 
                               tloading, nthr, ndoc, results, cachew, cache, 
                               reload, epoch, avail, ver, ret, stack, u, jt, v, 
                               i, doc, w, newt, st, tu, tjt, tv, ti, tdoc, tw, 
                               tnewt, tst, k >>

TJoined(self) == /\ pc[self] = "TJoined"
                 /\ tstate[tjt[self]] = "done"
                 /\ pc' = [pc EXCEPT ![self] = "TLgPop"]
                 /\ UNCHANGED << loaded, loading, tstate, targ, tkind, tloaded, 
                                 tloading, nthr, ndoc, err, results, cachew, 
                                 cache, reload, epoch, avail, ver, ret, stack, 
                                 u, jt, v, i, doc, w, newt, st, tu, tjt, tv, 
                                 ti, tdoc, tw, tnewt, tst, k >>

TLgPop(self) == /\ pc[self] = "TLgPop"
                /\ tloading' = [tloading EXCEPT ![tu[self]] = 0]
                /\ /\ stack' = [stack EXCEPT ![self] = << [ procedure |->  "TLoad",
                                                            pc        |->  "TLdRet",
                                                            tjt       |->  tjt[self],
                                                            tu        |->  tu[self] ] >>
                                                        \o stack[self]]
                   /\ tu' = [tu EXCEPT ![self] = tu[self]]
                /\ tjt' = [tjt EXCEPT ![self] = 0]
                /\ pc' = [pc EXCEPT ![self] = "TLdIn"]
                /\ UNCHANGED << loaded, loading, tstate, targ, tkind, tloaded, 
                                nthr, ndoc, err, results, cachew, cache, 
                                reload, epoch, avail, ver, ret, u, jt, v, i, 
                                doc, w, newt, st, tv, ti, tdoc, tw, tnewt, tst, 
                                k >>

TLdRet(self) == /\ pc[self] = "TLdRet"
                /\ pc' = [pc EXCEPT ![self] = Head(stack[self]).pc]
                /\ tjt' = [tjt EXCEPT ![self] = Head(stack[self]).tjt]
                /\ tu' = [tu EXCEPT ![self] = Head(stack[self]).tu]
                /\ stack' = [stack EXCEPT ![self] = Tail(stack[self])]
                /\ UNCHANGED << loaded, loading, tstate, targ, tkind, tloaded, 
                                tloading, nthr, ndoc, err, results, cachew, 
                                cache, reload, epoch, avail, ver, ret, u, jt, 
                                v, i, doc, w, newt, st, tv, ti, tdoc, tw, 
                                tnewt, tst, k >>

TRaw(self) == /\ pc[self] = "TRaw"
              /\ /\ stack' = [stack EXCEPT ![self] = << [ procedure |->  "TRawLoad",
                                                          pc        |->  "TRawRet",
                                                          ti        |->  ti[self],
                                                          tdoc      |->  tdoc[self],
                                                          tv        |->  tv[self] ] >>
                                                      \o stack[self]]
                 /\ tv' = [tv EXCEPT ![self] = tu[self]]
              /\ ti' = [ti EXCEPT ![self] = 1]
              /\ tdoc' = [tdoc EXCEPT ![self] = NoneV]
              /\ pc' = [pc EXCEPT ![self] = "TRFetch"]
              /\ UNCHANGED << loaded, loading, tstate, targ, tkind, tloaded, 
                              tloading, nthr, ndoc, err, results, cachew, 
                              cache, reload, epoch, avail, ver, ret, u, jt, v, 
                              i, doc, w, newt, st, tu, tjt, tw, tnewt, tst, k >>

TRawRet(self) == /\ pc[self] = "TRawRet"
                 /\ pc' = [pc EXCEPT ![self] = Head(stack[self]).pc]
                 /\ tjt' = [tjt EXCEPT ![self] = Head(stack[self]).tjt]
                 /\ tu' = [tu EXCEPT ![self] = Head(stack[self]).tu]
                 /\ stack' = [stack EXCEPT ![self] = Tail(stack[self])]
                 /\ UNCHANGED << loaded, loading, tstate, targ, tkind, tloaded, 
                                 tloading, nthr, ndoc, err, results, cachew, 
                                 cache, reload, epoch, avail, ver, ret, u, jt, 
                                 v, i, doc, w, newt, st, tv, ti, tdoc, tw, 
                                 tnewt, tst, k >>

THalt(self) == /\ pc[self] = "THalt"
               /\ IF self # Main
                     THEN /\ tstate' = [tstate EXCEPT ![self] = "done"]
                     ELSE /\ TRUE
                          /\ UNCHANGED tstate
               /\ pc' = [pc EXCEPT ![self] = "THDead"]
               /\ UNCHANGED << loaded, loading, targ, tkind, tloaded, tloading, 
                               nthr, ndoc, err, results, cachew, cache, reload, 
                               epoch, avail, ver, ret, stack, u, jt, v, i, doc, 
                               w, newt, st, tu, tjt, tv, ti, tdoc, tw, tnewt, 
                               tst, k >>

THDead(self) == /\ pc[self] = "THDead"
                /\ FALSE
                /\ pc' = [pc EXCEPT ![self] = "Error"]
                /\ UNCHANGED << loaded, loading, tstate, targ, tkind, tloaded, 
                                tloading, nthr, ndoc, err, results, cachew, 
                                cache, reload, epoch, avail, ver, ret, stack, 
                                u, jt, v, i, doc, w, newt, st, tu, tjt, tv, ti, 
                                tdoc, tw, tnewt, tst, k >>

TLoad(self) == TLdIn(self) \/ TLdGet(self) \/ TLgIn(self) \/ TLgGet(self)
                  \/ TJoin(self) \/ TJoined(self) \/ TLgPop(self)
                  \/ TLdRet(self) \/ TRaw(self) \/ TRawRet(self)
                  \/ THalt(self) \/ THDead(self)

TRFetch(self) == /\ pc[self] = "TRFetch"
                 /\ IF cache[tv[self]] = "fresh"
                       THEN /\ TRUE
                            /\ pc' = [pc EXCEPT ![self] = "TRParse"]
                            /\ UNCHANGED << cachew, cache, ret, stack, tv, ti, 
                                            tdoc >>
                       ELSE /\ IF ~avail[tv[self]]
                                  THEN /\ ret' = [ret EXCEPT ![self] = NoneV]
                                       /\ pc' = [pc EXCEPT ![self] = Head(stack[self]).pc]
                                       /\ ti' = [ti EXCEPT ![self] = Head(stack[self]).ti]
                                       /\ tdoc' = [tdoc EXCEPT ![self] = Head(stack[self]).tdoc]
                                       /\ tv' = [tv EXCEPT ![self] = Head(stack[self]).tv]
                                       /\ stack' = [stack EXCEPT ![self] = Tail(stack[self])]
                                       /\ UNCHANGED << cachew, cache >>
                                  ELSE /\ cachew' = (cachew \cup {tv[self]})
                                       /\ cache' = [cache EXCEPT ![tv[self]] = "fresh"]
                                       /\ pc' = [pc EXCEPT ![self] = "TRParse"]
                                       /\ UNCHANGED << ret, stack, tv, ti, 
                                                       tdoc >>
                 /\ UNCHANGED << loaded, loading, tstate, targ, tkind, tloaded, 
                                 tloading, nthr, ndoc, err, results, reload, 
                                 epoch, avail, ver, u, jt, v, i, doc, w, newt, 
                                 st, tu, tjt, tw, tnewt, tst, k >>

TRParse(self) == /\ pc[self] = "TRParse"
                 /\ IF ~Parse[tv[self]]
                       THEN /\ ret' = [ret EXCEPT ![self] = NoneV]
                            /\ pc' = [pc EXCEPT ![self] = Head(stack[self]).pc]
                            /\ ti' = [ti EXCEPT ![self] = Head(stack[self]).ti]
                            /\ tdoc' = [tdoc EXCEPT ![self] = Head(stack[self]).tdoc]
                            /\ tv' = [tv EXCEPT ![self] = Head(stack[self]).tv]
                            /\ stack' = [stack EXCEPT ![self] = Tail(stack[self])]
                            /\ ndoc' = ndoc
                       ELSE /\ ndoc' = ndoc + 1
                            /\ tdoc' = [tdoc EXCEPT ![self] = ndoc']
                            /\ pc' = [pc EXCEPT ![self] = "TLoop"]
                            /\ UNCHANGED << ret, stack, tv, ti >>
                 /\ UNCHANGED << loaded, loading, tstate, targ, tkind, tloaded, 
                                 tloading, nthr, err, results, cachew, cache, 
                                 reload, epoch, avail, ver, u, jt, v, i, doc, 
                                 w, newt, st, tu, tjt, tw, tnewt, tst, k >>

TLoop(self) == /\ pc[self] = "TLoop"
               /\ IF ti[self] <= Len(IncSeq(tv[self]))
                     THEN /\ /\ stack' = [stack EXCEPT ![self] = << [ procedure |->  "Deferred",
                                                                      pc        |->  "TIncLoad",
                                                                      newt      |->  newt[self],
                                                                      st        |->  st[self],
                                                                      w         |->  w[self] ] >>
                                                                  \o stack[self]]
                             /\ w' = [w EXCEPT ![self] = IncSeq(tv[self])[ti[self]]]
                          /\ newt' = [newt EXCEPT ![self] = 0]
                          /\ st' = [st EXCEPT ![self] = 0]
                          /\ pc' = [pc EXCEPT ![self] = "DfLdIn"]
                     ELSE /\ pc' = [pc EXCEPT ![self] = "TPub"]
                          /\ UNCHANGED << stack, w, newt, st >>
               /\ UNCHANGED << loaded, loading, tstate, targ, tkind, tloaded, 
                               tloading, nthr, ndoc, err, results, cachew, 
                               cache, reload, epoch, avail, ver, ret, u, jt, v, 
                               i, doc, tu, tjt, tv, ti, tdoc, tw, tnewt, tst, 
                               k >>

TIncLoad(self) == /\ pc[self] = "TIncLoad"
                  /\ /\ stack' = [stack EXCEPT ![self] = << [ procedure |->  "Load",
                                                              pc        |->  "TIncNext",
                                                              jt        |->  jt[self],
                                                              u         |->  u[self] ] >>
                                                          \o stack[self]]
                     /\ u' = [u EXCEPT ![self] = IncSeq(tv[self])[ti[self]]]
                  /\ jt' = [jt EXCEPT ![self] = 0]
                  /\ pc' = [pc EXCEPT ![self] = "LdIn"]
                  /\ UNCHANGED << loaded, loading, tstate, targ, tkind, 
                                  tloaded, tloading, nthr, ndoc, err, results, 
                                  cachew, cache, reload, epoch, avail, ver, 
                                  ret, v, i, doc, w, newt, st, tu, tjt, tv, ti, 
                                  tdoc, tw, tnewt, tst, k >>

TIncNext(self) == /\ pc[self] = "TIncNext"
                  /\ ti' = [ti EXCEPT ![self] = ti[self] + 1]
                  /\ pc' = [pc EXCEPT ![self] = "TLoop"]
                  /\ UNCHANGED << loaded, loading, tstate, targ, tkind, 
                                  tloaded, tloading, nthr, ndoc, err, results, 
                                  cachew, cache, reload, epoch, avail, ver, 
                                  ret, stack, u, jt, v, i, doc, w, newt, st, 
                                  tu, tjt, tv, tdoc, tw, tnewt, tst, k >>

TPub(self) == /\ pc[self] = "TPub"
              /\ tloaded' = [tloaded EXCEPT ![tv[self]] = tdoc[self]]
              /\ ret' = [ret EXCEPT ![self] = tdoc[self]]
              /\ pc' = [pc EXCEPT ![self] = Head(stack[self]).pc]
              /\ ti' = [ti EXCEPT ![self] = Head(stack[self]).ti]
              /\ tdoc' = [tdoc EXCEPT ![self] = Head(stack[self]).tdoc]
              /\ tv' = [tv EXCEPT ![self] = Head(stack[self]).tv]
              /\ stack' = [stack EXCEPT ![self] = Tail(stack[self])]
              /\ UNCHANGED << loaded, loading, tstate, targ, tkind, tloading, 
                              nthr, ndoc, err, results, cachew, cache, reload, 
                              epoch, avail, ver, u, jt, v, i, doc, w, newt, st, 
                              tu, tjt, tw, tnewt, tst, k >>

TRawLoad(self) == TRFetch(self) \/ TRParse(self) \/ TLoop(self)
                     \/ TIncLoad(self) \/ TIncNext(self) \/ TPub(self)

TDfLdIn(self) == /\ pc[self] = "TDfLdIn"
                 /\ IF tloaded[tw[self]] # Absent
                       THEN /\ pc' = [pc EXCEPT ![self] = Head(stack[self]).pc]
                            /\ tnewt' = [tnewt EXCEPT ![self] = Head(stack[self]).tnewt]
                            /\ tst' = [tst EXCEPT ![self] = Head(stack[self]).tst]
                            /\ tw' = [tw EXCEPT ![self] = Head(stack[self]).tw]
                            /\ stack' = [stack EXCEPT ![self] = Tail(stack[self])]
                       ELSE /\ pc' = [pc EXCEPT ![self] = "TDfLgIn"]
                            /\ UNCHANGED << stack, tw, tnewt, tst >>
                 /\ UNCHANGED << loaded, loading, tstate, targ, tkind, tloaded, 
                                 tloading, nthr, ndoc, err, results, cachew, 
                                 cache, reload, epoch, avail, ver, ret, u, jt, 
                                 v, i, doc, w, newt, st, tu, tjt, tv, ti, tdoc, 
                                 k >>

TDfLgIn(self) == /\ pc[self] = "TDfLgIn"
                 /\ IF tloading[tw[self]] # 0
                       THEN /\ pc' = [pc EXCEPT ![self] = Head(stack[self]).pc]
                            /\ tnewt' = [tnewt EXCEPT ![self] = Head(stack[self]).tnewt]
                            /\ tst' = [tst EXCEPT ![self] = Head(stack[self]).tst]
                            /\ tw' = [tw EXCEPT ![self] = Head(stack[self]).tw]
                            /\ stack' = [stack EXCEPT ![self] = Tail(stack[self])]
                            /\ UNCHANGED << tstate, targ, tkind, nthr >>
                       ELSE /\ nthr' = nthr + 1
                            /\ tnewt' = [tnewt EXCEPT ![self] = nthr']
                            /\ tstate' = [tstate EXCEPT ![nthr'] = "created"]
                            /\ targ' = [targ EXCEPT ![nthr'] = tw[self]]
                            /\ tkind' = [tkind EXCEPT ![nthr'] = "tmpl"]
                            /\ pc' = [pc EXCEPT ![self] = "TDfSet"]
                            /\ UNCHANGED << stack, tw, tst >>
                 /\ UNCHANGED << loaded, loading, tloaded, tloading, ndoc, err, 
                                 results, cachew, cache, reload, epoch, avail, 
                                 ver, ret, u, jt, v, i, doc, w, newt, st, tu, 
                                 tjt, tv, ti, tdoc, k >>

TDfSet(self) == /\ pc[self] = "TDfSet"
                /\ tloading' = [tloading EXCEPT ![tw[self]] = tnewt[self]]
                /\ pc' = [pc EXCEPT ![self] = "TDfGet"]
                /\ UNCHANGED << loaded, loading, tstate, targ, tkind, tloaded, 
                                nthr, ndoc, err, results, cachew, cache, 
                                reload, epoch, avail, ver, ret, stack, u, jt, 
                                v, i, doc, w, newt, st, tu, tjt, tv, ti, tdoc, 
                                tw, tnewt, tst, k >>

TDfGet(self) == /\ pc[self] = "TDfGet"
                /\ tst' = [tst EXCEPT ![self] = tloading[tw[self]]]
                /\ IF tst'[self] = 0
                      THEN /\ err' = [err EXCEPT ![self] = "KeyError"]
                           /\ pc' = [pc EXCEPT ![self] = "TDHalt"]
                      ELSE /\ pc' = [pc EXCEPT ![self] = "TDfStart"]
                           /\ err' = err
                /\ UNCHANGED << loaded, loading, tstate, targ, tkind, tloaded, 
                                tloading, nthr, ndoc, results, cachew, cache, 
                                reload, epoch, avail, ver, ret, stack, u, jt, 
                                v, i, doc, w, newt, st, tu, tjt, tv, ti, tdoc, 
                                tw, tnewt, k >>

TDfStart(self) == /\ pc[self] = "TDfStart"
                  /\ IF tstate[tst[self]] # "created"
                        THEN /\ err' = [err EXCEPT ![self] = "RuntimeError"]
                             /\ pc' = [pc EXCEPT ![self] = "TDHalt"]
                             /\ UNCHANGED << tstate, stack, tw, tnewt, tst >>
                        ELSE /\ tstate' = [tstate EXCEPT ![tst[self]] = "running"]
                             /\ pc' = [pc EXCEPT ![self] = Head(stack[self]).pc]
                             /\ tnewt' = [tnewt EXCEPT ![self] = Head(stack[self]).tnewt]
                             /\ tst' = [tst EXCEPT ![self] = Head(stack[self]).tst]
                             /\ tw' = [tw EXCEPT ![self] = Head(stack[self]).tw]
                             /\ stack' = [stack EXCEPT ![self] = Tail(stack[self])]
                             /\ err' = err
                  /\ UNCHANGED << loaded, loading, targ, tkind, tloaded, 
                                  tloading, nthr, ndoc, results, cachew, cache, 
                                  reload, epoch, avail, ver, ret, u, jt, v, i, 
                                  doc, w, newt, st, tu, tjt, tv, ti, tdoc, k >>

TDHalt(self) == /\ pc[self] = "TDHalt"
                /\ IF self # Main
                      THEN /\ tstate' = [tstate EXCEPT ![self] = "done"]
                      ELSE /\ TRUE
                           /\ UNCHANGED tstate
                /\ pc' = [pc EXCEPT ![self] = "TDDead"]
                /\ UNCHANGED << loaded, loading, targ, tkind, tloaded, 
                                tloading, nthr, ndoc, err, results, cachew, 
                                cache, reload, epoch, avail, ver, ret, stack, 
                                u, jt, v, i, doc, w, newt, st, tu, tjt, tv, ti, 
                                tdoc, tw, tnewt, tst, k >>

TDDead(self) == /\ pc[self] = "TDDead"
                /\ FALSE
                /\ pc' = [pc EXCEPT ![self] = "Error"]
                /\ UNCHANGED << loaded, loading, tstate, targ, tkind, tloaded, 
                                tloading, nthr, ndoc, err, results, cachew, 
                                cache, reload, epoch, avail, ver, ret, stack, 
                                u, jt, v, i, doc, w, newt, st, tu, tjt, tv, ti, 
                                tdoc, tw, tnewt, tst, k >>

TDeferred(self) == TDfLdIn(self) \/ TDfLgIn(self) \/ TDfSet(self)
                      \/ TDfGet(self) \/ TDfStart(self) \/ TDHalt(self)
                      \/ TDDead(self)

MBegin(self) == /\ pc[self] = "MBegin"
                /\ TRUE
                /\ pc' = [pc EXCEPT ![self] = "MLoop"]
                /\ UNCHANGED << loaded, loading, tstate, targ, tkind, tloaded, 
                                tloading, nthr, ndoc, err, results, cachew, 
                                cache, reload, epoch, avail, ver, ret, stack, 
                                u, jt, v, i, doc, w, newt, st, tu, tjt, tv, ti, 
                                tdoc, tw, tnewt, tst, k >>

MLoop(self) == /\ pc[self] = "MLoop"
               /\ IF k[self] <= Len(Prog)
                     THEN /\ IF Prog[k[self]][1] = "load"
                                THEN /\ /\ stack' = [stack EXCEPT ![self] = << [ procedure |->  "Load",
                                                                                 pc        |->  "MRes",
                                                                                 jt        |->  jt[self],
                                                                                 u         |->  u[self] ] >>
                                                                             \o stack[self]]
                                        /\ u' = [u EXCEPT ![self] = Prog[k[self]][2]]
                                     /\ jt' = [jt EXCEPT ![self] = 0]
                                     /\ pc' = [pc EXCEPT ![self] = "LdIn"]
                                     /\ UNCHANGED << reload, epoch, w, newt, 
                                                     st, tu, tjt, tw, tnewt, 
                                                     tst >>
                                ELSE /\ IF Prog[k[self]][1] = "refresh"
                                           THEN /\ reload' = TRUE
                                                /\ epoch' = epoch + 1
                                                /\ pc' = [pc EXCEPT ![self] = "RfClear"]
                                                /\ UNCHANGED << stack, w, newt, 
                                                                st, tu, tjt, 
                                                                tw, tnewt, tst >>
                                           ELSE /\ IF Prog[k[self]][1] = "tload"
                                                      THEN /\ /\ stack' = [stack EXCEPT ![self] = << [ procedure |->  "TLoad",
                                                                                                       pc        |->  "TMRes",
                                                                                                       tjt       |->  tjt[self],
                                                                                                       tu        |->  tu[self] ] >>
                                                                                                   \o stack[self]]
                                                              /\ tu' = [tu EXCEPT ![self] = Prog[k[self]][2]]
                                                           /\ tjt' = [tjt EXCEPT ![self] = 0]
                                                           /\ pc' = [pc EXCEPT ![self] = "TLdIn"]
                                                           /\ UNCHANGED << w, 
                                                                           newt, 
                                                                           st, 
                                                                           tw, 
                                                                           tnewt, 
                                                                           tst >>
                                                      ELSE /\ IF Prog[k[self]][1] = "tdeferred"
                                                                 THEN /\ /\ stack' = [stack EXCEPT ![self] = << [ procedure |->  "TDeferred",
                                                                                                                  pc        |->  "MNext",
                                                                                                                  tnewt     |->  tnewt[self],
                                                                                                                  tst       |->  tst[self],
                                                                                                                  tw        |->  tw[self] ] >>
                                                                                                              \o stack[self]]
                                                                         /\ tw' = [tw EXCEPT ![self] = Prog[k[self]][2]]
                                                                      /\ tnewt' = [tnewt EXCEPT ![self] = 0]
                                                                      /\ tst' = [tst EXCEPT ![self] = 0]
                                                                      /\ pc' = [pc EXCEPT ![self] = "TDfLdIn"]
                                                                      /\ UNCHANGED << w, 
                                                                                      newt, 
                                                                                      st >>
                                                                 ELSE /\ IF Prog[k[self]][1] = "appear"
                                                                            THEN /\ pc' = [pc EXCEPT ![self] = "MAppear"]
                                                                                 /\ UNCHANGED << stack, 
                                                                                                 w, 
                                                                                                 newt, 
                                                                                                 st >>
                                                                            ELSE /\ IF Prog[k[self]][1] = "touch"
                                                                                       THEN /\ pc' = [pc EXCEPT ![self] = "MTouch"]
                                                                                            /\ UNCHANGED << stack, 
                                                                                                            w, 
                                                                                                            newt, 
                                                                                                            st >>
                                                                                       ELSE /\ /\ stack' = [stack EXCEPT ![self] = << [ procedure |->  "Deferred",
                                                                                                                                        pc        |->  "MNext",
                                                                                                                                        newt      |->  newt[self],
                                                                                                                                        st        |->  st[self],
                                                                                                                                        w         |->  w[self] ] >>
                                                                                                                                    \o stack[self]]
                                                                                               /\ w' = [w EXCEPT ![self] = Prog[k[self]][2]]
                                                                                            /\ newt' = [newt EXCEPT ![self] = 0]
                                                                                            /\ st' = [st EXCEPT ![self] = 0]
                                                                                            /\ pc' = [pc EXCEPT ![self] = "DfLdIn"]
                                                                      /\ UNCHANGED << tw, 
                                                                                      tnewt, 
                                                                                      tst >>
                                                           /\ UNCHANGED << tu, 
                                                                           tjt >>
                                                /\ UNCHANGED << reload, epoch >>
                                     /\ UNCHANGED << u, jt >>
                     ELSE /\ pc' = [pc EXCEPT ![self] = "Done"]
                          /\ UNCHANGED << reload, epoch, stack, u, jt, w, newt, 
                                          st, tu, tjt, tw, tnewt, tst >>
               /\ UNCHANGED << loaded, loading, tstate, targ, tkind, tloaded, 
                               tloading, nthr, ndoc, err, results, cachew, 
                               cache, avail, ver, ret, v, i, doc, tv, ti, tdoc, 
                               k >>

MNext(self) == /\ pc[self] = "MNext"
               /\ k' = [k EXCEPT ![self] = k[self] + 1]
               /\ pc' = [pc EXCEPT ![self] = "MLoop"]
               /\ UNCHANGED << loaded, loading, tstate, targ, tkind, tloaded, 
                               tloading, nthr, ndoc, err, results, cachew, 
                               cache, reload, epoch, avail, ver, ret, stack, u, 
                               jt, v, i, doc, w, newt, st, tu, tjt, tv, ti, 
                               tdoc, tw, tnewt, tst >>

MRes(self) == /\ pc[self] = "MRes"
              /\ results' = Append(results, <<Prog[k[self]][2], ret[self], epoch, avail[Prog[k[self]][2]] /\ Parse[Prog[k[self]][2]]>>)
              /\ pc' = [pc EXCEPT ![self] = "MNext"]
              /\ UNCHANGED << loaded, loading, tstate, targ, tkind, tloaded, 
                              tloading, nthr, ndoc, err, cachew, cache, reload, 
                              epoch, avail, ver, ret, stack, u, jt, v, i, doc, 
                              w, newt, st, tu, tjt, tv, ti, tdoc, tw, tnewt, 
                              tst, k >>

RfClear(self) == /\ pc[self] = "RfClear"
                 /\ loaded' = [uu \in URLS |-> Absent]
                 /\ /\ stack' = [stack EXCEPT ![self] = << [ procedure |->  "Load",
                                                             pc        |->  "RfDone",
                                                             jt        |->  jt[self],
                                                             u         |->  u[self] ] >>
                                                         \o stack[self]]
                    /\ u' = [u EXCEPT ![self] = Prog[k[self]][2]]
                 /\ jt' = [jt EXCEPT ![self] = 0]
                 /\ pc' = [pc EXCEPT ![self] = "LdIn"]
                 /\ UNCHANGED << loading, tstate, targ, tkind, tloaded, 
                                 tloading, nthr, ndoc, err, results, cachew, 
                                 cache, reload, epoch, avail, ver, ret, v, i, 
                                 doc, w, newt, st, tu, tjt, tv, ti, tdoc, tw, 
                                 tnewt, tst, k >>

RfDone(self) == /\ pc[self] = "RfDone"
                /\ reload' = FALSE
                /\ pc' = [pc EXCEPT ![self] = "MNext"]
                /\ UNCHANGED << loaded, loading, tstate, targ, tkind, tloaded, 
                                tloading, nthr, ndoc, err, results, cachew, 
                                cache, epoch, avail, ver, ret, stack, u, jt, v, 
                                i, doc, w, newt, st, tu, tjt, tv, ti, tdoc, tw, 
                                tnewt, tst, k >>

TMRes(self) == /\ pc[self] = "TMRes"
               /\ results' = Append(results, <<Prog[k[self]][2], ret[self], epoch, avail[Prog[k[self]][2]] /\ Parse[Prog[k[self]][2]]>>)
               /\ pc' = [pc EXCEPT ![self] = "MNext"]
               /\ UNCHANGED << loaded, loading, tstate, targ, tkind, tloaded, 
                               tloading, nthr, ndoc, err, cachew, cache, 
                               reload, epoch, avail, ver, ret, stack, u, jt, v, 
                               i, doc, w, newt, st, tu, tjt, tv, ti, tdoc, tw, 
                               tnewt, tst, k >>

MAppear(self) == /\ pc[self] = "MAppear"
                 /\ avail' = [avail EXCEPT ![Prog[k[self]][2]] = TRUE]
                 /\ pc' = [pc EXCEPT ![self] = "MNext"]
                 /\ UNCHANGED << loaded, loading, tstate, targ, tkind, tloaded, 
                                 tloading, nthr, ndoc, err, results, cachew, 
                                 cache, reload, epoch, ver, ret, stack, u, jt, 
                                 v, i, doc, w, newt, st, tu, tjt, tv, ti, tdoc, 
                                 tw, tnewt, tst, k >>

MTouch(self) == /\ pc[self] = "MTouch"
                /\ ver' = [ver EXCEPT ![Prog[k[self]][2]] = ver[Prog[k[self]][2]] + 1]
                /\ pc' = [pc EXCEPT ![self] = "MNext"]
                /\ UNCHANGED << loaded, loading, tstate, targ, tkind, tloaded, 
                                tloading, nthr, ndoc, err, results, cachew, 
                                cache, reload, epoch, avail, ret, stack, u, jt, 
                                v, i, doc, w, newt, st, tu, tjt, tv, ti, tdoc, 
                                tw, tnewt, tst, k >>

M(self) == MBegin(self) \/ MLoop(self) \/ MNext(self) \/ MRes(self)
              \/ RfClear(self) \/ RfDone(self) \/ TMRes(self)
              \/ MAppear(self) \/ MTouch(self)

TBegin(self) == /\ pc[self] = "TBegin"
                /\ tstate[self] = "running"
                /\ pc' = [pc EXCEPT ![self] = "TRun"]
                /\ UNCHANGED << loaded, loading, tstate, targ, tkind, tloaded, 
                                tloading, nthr, ndoc, err, results, cachew, 
                                cache, reload, epoch, avail, ver, ret, stack, 
                                u, jt, v, i, doc, w, newt, st, tu, tjt, tv, ti, 
                                tdoc, tw, tnewt, tst, k >>

TRun(self) == /\ pc[self] = "TRun"
              /\ IF tkind[self] = "tmpl"
                    THEN /\ /\ stack' = [stack EXCEPT ![self] = << [ procedure |->  "TRawLoad",
                                                                     pc        |->  "TDone",
                                                                     ti        |->  ti[self],
                                                                     tdoc      |->  tdoc[self],
                                                                     tv        |->  tv[self] ] >>
                                                                 \o stack[self]]
                            /\ tv' = [tv EXCEPT ![self] = targ[self]]
                         /\ ti' = [ti EXCEPT ![self] = 1]
                         /\ tdoc' = [tdoc EXCEPT ![self] = NoneV]
                         /\ pc' = [pc EXCEPT ![self] = "TRFetch"]
                         /\ UNCHANGED << v, i, doc >>
                    ELSE /\ /\ stack' = [stack EXCEPT ![self] = << [ procedure |->  "RawLoad",
                                                                     pc        |->  "TDone",
                                                                     i         |->  i[self],
                                                                     doc       |->  doc[self],
                                                                     v         |->  v[self] ] >>
                                                                 \o stack[self]]
                            /\ v' = [v EXCEPT ![self] = targ[self]]
                         /\ i' = [i EXCEPT ![self] = 1]
                         /\ doc' = [doc EXCEPT ![self] = NoneV]
                         /\ pc' = [pc EXCEPT ![self] = "RFetch"]
                         /\ UNCHANGED << tv, ti, tdoc >>
              /\ UNCHANGED << loaded, loading, tstate, targ, tkind, tloaded, 
                              tloading, nthr, ndoc, err, results, cachew, 
                              cache, reload, epoch, avail, ver, ret, u, jt, w, 
                              newt, st, tu, tjt, tw, tnewt, tst, k >>

TDone(self) == /\ pc[self] = "TDone"
               /\ tstate' = [tstate EXCEPT ![self] = "done"]
               /\ pc' = [pc EXCEPT ![self] = "Done"]
               /\ UNCHANGED << loaded, loading, targ, tkind, tloaded, tloading, 
                               nthr, ndoc, err, results, cachew, cache, reload, 
                               epoch, avail, ver, ret, stack, u, jt, v, i, doc, 
                               w, newt, st, tu, tjt, tv, ti, tdoc, tw, tnewt, 
                               tst, k >>

T(self) == TBegin(self) \/ TRun(self) \/ TDone(self)

(* Allow infinite stuttering to prevent deadlock on termination. *)
Terminating == /\ \A self \in ProcSet: pc[self] = "Done"
               /\ UNCHANGED vars

Next == (\E self \in ProcSet:  \/ Load(self) \/ RawLoad(self)
                               \/ Deferred(self) \/ TLoad(self)
                               \/ TRawLoad(self) \/ TDeferred(self))
           \/ (\E self \in {Main}: M(self))
           \/ (\E self \in Thr: T(self))
           \/ Terminating

Spec == Init /\ [][Next]_vars

Termination == <>(\A self \in ProcSet: pc[self] = "Done")

\* END TRANSLATION 
 

====
