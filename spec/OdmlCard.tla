---- MODULE OdmlCard ----
(***************************************************************************)
(* State machine: one object of kind values / properties / sections with a *)
(* cardinality and a child count; assignments of every input form, edits   *)
(* of the child count, validation, save/load in three formats.             *)
(***************************************************************************)
EXTENDS OdmlCardOps, Json
CONSTANTS MaxCount, Lo, Hi
VARIABLES cs, last
MinusOne == 0 - 1
Kinds == {"values", "properties", "sections"}
BoundsIn == (Lo..Hi) \cup {N}
Inputs == {[t |-> "none"]} \cup {[t |-> "int", v |-> k] : k \in Lo..Hi} \cup
          {[t |-> "pair", a |-> a, b |-> b, l |-> l] : a \in BoundsIn, b \in BoundsIn, l \in BOOLEAN} \cup
          {[t |-> tt] : tt \in WrongForms \cup GreyForms}
Init == cs \in {[kind |-> k, card |-> Unset, count |-> n] : k \in Kinds, n \in 0..MaxCount} /\ last = [name |-> "init"]
SetPost(s, x) == IF FormatCard(x) = Raise THEN s ELSE [s EXCEPT !.card = FormatCard(x)]
Next ==
   \/ \E x \in Inputs : cs' = SetPost(cs, x) /\ last' = [name |-> "set", x |-> x]
   \/ \E a \in BoundsIn, b \in BoundsIn :
         cs' = SetPost(cs, [t |-> "pair", a |-> a, b |-> b, l |-> FALSE]) /\ last' = [name |-> "setminmax", x |-> [t |-> "pair", a |-> a, b |-> b, l |-> FALSE]]
   \/ cs.count < MaxCount /\ cs' = [cs EXCEPT !.count = @ + 1] /\ last' = [name |-> "add"]
   \/ cs.count > 0 /\ cs' = [cs EXCEPT !.count = @ - 1] /\ last' = [name |-> "remove"]
   \/ \E f \in {"XML", "JSON", "YAML"} : cs' = cs /\ last' = [name |-> "saveload", fmt |-> f]
Spec == Init /\ [][Next]_<<cs, last>>
View == cs
InvNF == CardNF(cs.card)
Emit == PrintT(ToJson([pre |-> cs, op |-> last']))
====
