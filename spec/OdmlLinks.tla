---- MODULE OdmlLinks ----
(***************************************************************************)
(* C12 - resolving links and includes only adds copies; cleaning restores  *)
(* the document.  CONTRACT over full worlds (OdmlClone) and the meaning of *)
(* paths (OdmlPaths).  A link is a record [L |-> linking Section,          *)
(* T |-> target Section, ...].                                             *)
(***************************************************************************)
EXTENDS OdmlPaths, OdmlClone

Below(st, x) == Sub(st, x)
\* side conditions of the quantifier: target neither the linking Section nor an ancestor or
\* descendant of it; no target is, contains or lies inside another linking Section; no nested links
PairOK(st, L, T) == T # L /\ T \notin Anc(st, L) /\ T \notin Below(st, L)
LinkShapeOK(st, links) ==
   /\ \A e \in links : st.kind[e.L] = "sec" /\ st.kind[e.T] = "sec" /\ PairOK(st, e.L, e.T)
   /\ \A e, f \in links : e # f =>
        /\ e.L # f.L
        /\ e.T \notin Below(st, f.L) /\ f.L \notin Below(st, e.T)
        /\ e.L \notin Below(st, f.L)
AllChildren(st, x) == SeqRange(st.kids[x]) \cup SeqRange(st.plist[x])
UsesName(st, L, c) == \E d \in AllChildren(st, L) : st.kind[d] = st.kind[c] /\ st.name[d] = st.name[c]
SharesNames(st, L, T) == \E c \in AllChildren(st, T) : UsesName(st, L, c)

\* o = [pre, post, links, out]: doc.finalize()
FinalizePost(o) ==
   LET pre == o.pre IN LET post == o.post IN
   /\ o.out = "ok"
   /\ \A e \in SeqRange(o.links) :
        \* a copy of every child of the target whose name the linking Section does not use
        /\ \A c \in AllChildren(pre, e.T) : ~UsesName(pre, e.L, c) =>
              \E c2 \in AllChildren(post, e.L) : New(pre, c2) /\ Equal(pre, c, post, c2) /\ post.par[c2] = e.L
        \* nothing but such copies is added, the own children stay
        /\ \A c2 \in AllChildren(post, e.L) : c2 \in AllChildren(pre, e.L) \/
              (New(pre, c2) /\ \E c \in AllChildren(pre, e.T) : ~UsesName(pre, e.L, c) /\ Equal(pre, c, post, c2))
        /\ \A c1 \in AllChildren(pre, e.L) : c1 \in AllChildren(post, e.L)
        /\ \A c1 \in AllChildren(pre, e.L) : (\A c \in AllChildren(pre, e.T) : pre.kind[c] # pre.kind[c1] \/ pre.name[c] # pre.name[c1]) =>
              \A z \in Sub(pre, c1) : FullOf(post, z) = FullOf(pre, z)
   \* the referenced Sections and every other part of the document are unchanged
   /\ Unchanged(pre, post, DOMAIN pre.kind \ UNION {Sub(pre, e.L) : e \in SeqRange(o.links)})
   /\ WFStruct(post) /\ UniqueSiblings(post)

\* FullOf without the text of the link attribute (free as long as it designates the same target)
\* and without definition / reference of a linking Section (judged separately: LinkerAttrsRestored)
Mask(r, keys) == [r EXCEPT !.attrs = [a \in DOMAIN r.attrs |-> IF a \in keys THEN "-" ELSE r.attrs[a]]]
Linkers(o) == {e.L : e \in SeqRange(o.links)}
Applies(o) == \A e \in SeqRange(o.links) : ~SharesNames(o.ref, e.L, e.T)
\* o = [ref, post, links, postlinks, out]: doc.clean() after finalize; ref is the world before finalize
RestorePost(o) ==
   Applies(o) =>
      /\ o.out = "ok"
      /\ Sub(o.post, o.x) = Sub(o.ref, o.x)                                       \* exactly the copies are gone from the document
      /\ \A h \in Sub(o.ref, o.x) :
            LET keys == IF h \in Linkers(o) THEN {"link", "definition", "reference"} ELSE {} IN
            Mask(FullOf(o.post, h), keys) = Mask(FullOf(o.ref, h), keys)
LinkStillDesignates(o) ==
   Applies(o) => \A e \in SeqRange(o.links) : Resolve(o.post, e.L, o.postlinks[e.L]) = e.T
LinkerAttrsRestored(o) ==
   Applies(o) => \A L \in Linkers(o) : \A a \in {"definition", "reference"} : o.post.attrs[L][a] = o.ref.attrs[L][a]
\* classification of a violation of LinkerAttrsRestored: an unset attribute now carries the target's value
FilledFromTarget(o) ==
   \A e \in SeqRange(o.links) : \A a \in {"definition", "reference"} :
       o.post.attrs[e.L][a] # o.ref.attrs[e.L][a] => (o.ref.attrs[e.L][a] = "none" /\ o.post.attrs[e.L][a] = o.ref.attrs[e.T][a])
\* o = [post, links, x (document), y (document loaded from the saved file)]
SavedPost(o) == /\ o.out = "ok"
                /\ Equal(o.post, o.x, o.post, o.y)                               \* the reference, none of the referenced content
                /\ \A pr \in Pairs(o.post, o.x, o.post, o.y) : o.post.id[pr[2]] = o.post.id[pr[1]]
====
