---- MODULE OdmlPaths ----
(***************************************************************************)
(* C14 - paths address exactly one object and traversals enumerate exactly *)
(* the tree.  Pure operators over a world record (OdmlWorld): the meaning  *)
(* of path strings (Resolve), reference paths (PathOf, RelPath), breadth   *)
(* first enumeration (Level, Below) and the CONTRACT on one observed tree. *)
(* A tokenised path is [abs |-> BOOLEAN, steps |-> Seq(name | ".." | ".")  *)
(* , prop |-> name | "none"].                                              *)
(***************************************************************************)
EXTENDS OdmlWorld

FAIL == "fail"
ChildNamed(st, c, n) == LET S == {i \in DOMAIN st.kids[c] : st.name[st.kids[c][i]] = n} IN
                          IF c = FAIL \/ c \notin DOMAIN st.kids \/ S = {} THEN FAIL ELSE st.kids[c][CHOOSE i \in S : \A j \in S : i <= j]
PropNamed(st, c, n) == LET S == {i \in DOMAIN st.plist[c] : st.name[st.plist[c][i]] = n} IN
                          IF c = FAIL \/ c \notin DOMAIN st.plist \/ S = {} THEN FAIL ELSE st.plist[c][CHOOSE i \in S : \A j \in S : i <= j]
Step(st, cur, s) == IF cur = FAIL THEN FAIL
                    ELSE IF s = "." THEN cur
                    ELSE IF s = ".." THEN (IF st.kind[cur] = "doc" \/ st.par[cur] = NONE THEN FAIL ELSE st.par[cur])
                    ELSE ChildNamed(st, cur, s)
RECURSIVE Walk(_,_,_)
Walk(st, cur, steps) == IF steps = <<>> THEN cur ELSE Walk(st, Step(st, cur, Head(steps)), Tail(steps))
\* what a path string designates when looked up from object `from`
Resolve(st, from, p) ==
   LET start == IF p.abs THEN (IF st.kind[from] = "doc" THEN from ELSE IF RootDoc(st, from) = NONE THEN FAIL ELSE RootDoc(st, from)) ELSE from IN
   LET sec == Walk(st, start, p.steps) IN
   IF p.prop = "none" THEN sec ELSE PropNamed(st, sec, p.prop)

\* reference paths
RECURSIVE NamesDown(_,_)
NamesDown(st, x) == IF st.kind[x] = "doc" \/ st.par[x] = NONE THEN <<>> ELSE Append(NamesDown(st, st.par[x]), st.name[x])
PathOf(st, x) == IF st.kind[x] = "prop"
                 THEN [abs |-> TRUE, steps |-> NamesDown(st, st.par[x]), prop |-> st.name[x]]
                 ELSE [abs |-> TRUE, steps |-> NamesDown(st, x), prop |-> "none"]
RECURSIVE Depth(_,_)
Depth(st, x) == IF st.kind[x] = "doc" \/ st.par[x] = NONE THEN 0 ELSE 1 + Depth(st, st.par[x])
RECURSIVE Ups(_)
Ups(n) == IF n = 0 THEN <<>> ELSE <<"..">> \o Ups(n - 1)
RECURSIVE Common(_,_)
Common(s, t) == IF s = <<>> \/ t = <<>> \/ Head(s) # Head(t) THEN <<>> ELSE <<Head(s)>> \o Common(Tail(s), Tail(t))
\* relative path from section a to section b: up to the deepest common ancestor, then down
RelPath(st, a, b) == LET pa == NamesDown(st, a) IN LET pb == NamesDown(st, b) IN LET k == Len(Common(pa, pb)) IN
                       [abs |-> FALSE, steps |-> Ups(Len(pa) - k) \o SubSeq(pb, k + 1, Len(pb)), prop |-> "none"]

\* level of section y relative to start c (0 = c itself); -1 if y is not in the subtree of c
RECURSIVE LevelB(_,_,_,_)
LevelB(st, c, y, n) == IF y = c THEN 0 ELSE IF n = 0 \/ st.kind[y] = "doc" \/ st.par[y] = NONE THEN 0 - 1000
                       ELSE 1 + LevelB(st, c, st.par[y], n - 1)
Level(st, c, y) == LevelB(st, c, y, Cardinality(DOMAIN st.kind))
\* sections itersections must yield from start c
SecsBelow(st, c, depth, yieldself) ==
   {y \in Secs(st) : Level(st, c, y) >= (IF yieldself /\ st.kind[c] = "sec" THEN 0 ELSE 1)
                     /\ (depth < 0 \/ Level(st, c, y) <= depth)}        \* depth < 0: unlimited
\* properties iterproperties must yield from start c
PropsBelow(st, c, depth) ==
   {p \in Props(st) : st.par[p] # NONE /\ Level(st, c, st.par[p]) >= 0 /\ st.kind[st.par[p]] = "sec"
                      /\ (depth < 0 \/ Level(st, c, st.par[p]) <= depth)}

(***************************************************************************)
(* CONTRACT on one observed tree o = [st, paths, lookups, rels, iters,     *)
(* finds]                                                                  *)
(***************************************************************************)
Attached(st, x) == RootDoc(st, x) # NONE
\* (PathOK) the real path of x, read by the spec, designates x
PathOK(st, e) == Attached(st, e.x) => Resolve(st, RootDoc(st, e.x), e.path) = e.x
\* (LookupOK) the real lookup of the real path from any start in the document returns x
LookupOK(st, e) == e.res = e.x
\* (RelOK) the real relative path, resolved by the real code from a, is b; and means b to the spec
RelOK(st, e) == e.res = e.b /\ Resolve(st, e.a, e.path) = e.b
SeqSet(s) == {s[i] : i \in DOMAIN s}
Monotone(st, c, s) == \A i, j \in DOMAIN s : i < j => Level(st, c, s[i]) <= Level(st, c, s[j])
\* e.filt: "none", or "sel" = the filter "named a" for Sections and Properties / "is empty" for value lists
\* (st.nvals[p]: number of values of Property p)
SelObj(st, e, S) == IF e.filt = "none" THEN S ELSE {y \in S : st.name[y] = "a"}
SelVal(st, e, S) == IF e.filt = "none" THEN S ELSE {p \in S : st.nvals[p] = 0}
IterOK(st, e) ==
   /\ NoDup(e.secs) /\ SeqSet(e.secs) = SelObj(st, e, SecsBelow(st, e.start, e.depth, e.yieldself)) /\ Monotone(st, e.start, e.secs)
   /\ NoDup(e.props) /\ SeqSet(e.props) = SelObj(st, e, PropsBelow(st, e.start, e.depth))
   /\ NoDup(e.vals) /\ SeqSet(e.vals) = SelVal(st, e, PropsBelow(st, e.start, e.depth))
\* a type matches exactly or, when sub-types are included, as one of the leading '/'-separated parts of the
\* object's type (st.typeparts[t]: the parts of type t, lower case)
LeadingParts(st, t) == {st.typeparts[t][i] : i \in 1 .. (Len(st.typeparts[t]) - 1)}
Matches(st, y, key, type, sub) == /\ (key = "none" \/ st.name[y] = key)
                                  /\ (type = "none" \/ st.type[y] = type \/ (sub /\ type \in LeadingParts(st, st.type[y])))
ChildrenOf(st, c) == SeqSet(st.kids[c])
Descendants(st, c) == {y \in Secs(st) : Level(st, c, y) >= 1}
Siblings(st, c) == IF st.kind[c] = "doc" \/ st.par[c] = NONE THEN {} ELSE ChildrenOf(st, st.par[c])
Ancestors(st, c) == {y \in Anc(st, c) : st.kind[y] = "sec"}
Scope(st, e) == IF e.fn = "find" THEN ChildrenOf(st, e.start)
                ELSE (IF e.children THEN (IF e.recursive THEN Descendants(st, e.start) ELSE ChildrenOf(st, e.start)) ELSE {})
                     \cup (IF e.siblings THEN Siblings(st, e.start) ELSE {})
                     \cup (IF e.parents THEN (IF e.recursive THEN Ancestors(st, e.start)
                                               ELSE (Ancestors(st, e.start) \cap (IF st.kind[e.start] = "doc" THEN {} ELSE {st.par[e.start]}))) ELSE {})
Hits(st, e) == {y \in Scope(st, e) : Matches(st, y, e.key, e.type, e.sub)}
\* sound (only matching objects of the requested relation) and complete (one if any; all with findAll)
FindOK(st, e) == /\ SeqSet(e.res) \subseteq Hits(st, e)
                 /\ (Hits(st, e) # {} => e.res # <<>>)
                 /\ (e.all => SeqSet(e.res) = Hits(st, e))
====
