---- MODULE JudgeConvert ----
(* Judge for C15 observations. *)
EXTENDS OdmlConvert, Json, IOUtils
Obs == ndJsonDeserialize(IOEnv.OBS_FILE)
VARIABLE l
Say(o, clause, sig) == PrintT(ToJson(<<"VIOL", "C15", clause, o.k, sig>>))
C(o, ok, clause, sig) == IF ok THEN TRUE ELSE Say(o, clause, sig)
Base(o) == <<o.fmt, o.entry>>
Commas(o) == IF \E h \in PropH : \E i \in DOMAIN o.src.props[h].vals : Len(o.src.props[h].vals) > 1 /\ o.g[h].vtext = "comma" THEN "several-values-with-comma" ELSE "no-comma-in-lists"
DupNames(o) == IF \E G \in SecGroups \cup PropGroups : \E a, b \in G : a # b /\ o.g[a].name = o.g[b].name THEN "duplicate-sibling-names" ELSE "unique-names"
Check(i) == LET o == Obs[i] IN
   /\ C(o, Loads(o), "ResultLoadsStrictly", <<Base(o), o.out, o.exc, o.strictload, DupNames(o)>>)
   /\ C(o, SourceUntouched(o), "SourceNeverModified", <<Base(o)>>)
   /\ (~Loads(o) \/
        /\ C(o, SameTree(o), "SameSectionTree", <<Base(o), DupNames(o)>>)
        /\ C(o, UniqueNames(o), "ClashingNamesMadeUnique", <<Base(o)>>)
        /\ C(o, NoNeedlessRename(o), "OnlyClashingNamesAreChanged", <<Base(o)>>)
        /\ C(o, NamedKept(o), "SameProperties", <<Base(o), DupNames(o)>>)
        /\ C(o, ValuesKept(o), "AllValuesInOrder", <<Base(o), Commas(o)>>)
        /\ C(o, AttrsLifted(o), "ValueAttributesLifted", <<Base(o), LiftMismatch(o)>>)
        /\ C(o, DepValKept(o), "DependencyValueKept", <<Base(o)>>)
        /\ C(o, IdsOK(o), "IdsKeptOrReplaced", <<Base(o)>>)
        /\ C(o, DropsLogged(o), "EveryDropIsLogged", <<Base(o)>>))
JInit == l = 1
JNext == l <= Len(Obs) /\ (Check(l) = TRUE) /\ l' = l + 1
JSpec == JInit /\ [][JNext]_l
Done == IF TLCGet("stats").diameter - 1 = Len(Obs) THEN TRUE
        ELSE PrintT(ToJson(<<"INCOMPLETE", TLCGet("stats").diameter - 1, Len(Obs)>>)) /\ FALSE
====
