---- MODULE OdmlFormats ----
(***************************************************************************)
(* C01 / C02 at document level: the odML 1.1 vocabularies (element names   *)
(* of the XML form, keys of the dictionary form) and the CONTRACT on one   *)
(* observed round trip / foreign-file load:                                *)
(*   o = [t, fmt, entry, mode, opt, out, exp (the expected full world),    *)
(*        world (full world holding the loaded document r1), warnings,     *)
(*        vocab, dictkeys]                                                 *)
(* exp for XML is the original with surrounding whitespace of every text   *)
(* removed (TrimText), for JSON/YAML the original itself.                  *)
(***************************************************************************)
EXTENDS OdmlClone
XmlVocab == {<<"odML", k>> : k \in {"id", "version", "author", "date", "repository", "section"}} \cup
            {<<"section", k>> : k \in {"id", "type", "name", "definition", "reference", "link", "repository", "section", "include",
                                        "property", "sec_cardinality", "prop_cardinality"}} \cup
            {<<"property", k>> : k \in {"id", "name", "value", "unit", "definition", "dependency", "dependencyvalue", "uncertainty",
                                         "reference", "type", "value_origin", "val_cardinality"}}
Foreign == {<<"odML", "stylesheet">>}          \* the one foreign element an embedded stylesheet adds
DictVocab == {<<"root", "Document">>, <<"root", "odml-version">>} \cup
             {<<"Document", k>> : k \in {"id", "version", "author", "date", "repository", "sections"}} \cup
             {<<"section", k>> : k \in {"id", "type", "name", "definition", "reference", "link", "repository", "sections", "include",
                                         "properties", "sec_cardinality", "prop_cardinality"}} \cup
             {<<"property", k>> : k \in {"id", "name", "value", "unit", "definition", "dependency", "dependencyvalue", "uncertainty",
                                          "reference", "type", "value_origin", "val_cardinality"}}
\* content equality without the Python type of the uncertainty (judged separately)
SameDoc(o) == /\ o.out = "ok"
              /\ Equal(o.exp, o.x, o.world, o.y)
              /\ \A pr \in Pairs(o.exp, o.x, o.world, o.y) : o.world.id[pr[2]] = o.exp.id[pr[1]]
UncertaintyTyped(o) == o.out = "ok" => \A pr \in Pairs(o.exp, o.x, o.world, o.y) :
                          (pr[1] \in DOMAIN o.exp.unctype /\ pr[2] \in DOMAIN o.world.unctype) => o.world.unctype[pr[2]] = o.exp.unctype[pr[1]]
XmlVocabOK(o) == /\ o.vocab.root = "odML" /\ o.vocab.version = "1.1"
                 /\ \A i \in DOMAIN o.vocab.pairs : <<o.vocab.pairs[i][1], o.vocab.pairs[i][2]>> \in XmlVocab \cup (IF o.opt = "plain" THEN {} ELSE Foreign)
DictVocabOK(o) == /\ \A i \in DOMAIN o.dictkeys : <<o.dictkeys[i][1], o.dictkeys[i][2]>> \in DictVocab
                  /\ \E i \in DOMAIN o.dictkeys : o.dictkeys[i] = <<"root", "Document">>
                  /\ \E i \in DOMAIN o.dictkeys : o.dictkeys[i] = <<"root", "odml-version">>
====
