SPECIFICATION Spec
CONSTANTS SecSeq <- S4
 PropSeq <- P1
 Names = {"a","ab","abc"}
 Types = {"t"}
INVARIANT ThmPath
INVARIANT ThmRel
INVARIANT ThmWF
ACTION_CONSTRAINT Emit
CHECK_DEADLOCK FALSE
