---- MODULE OdmlIdsOps ----
(***************************************************************************)
(* C04, id part: an object's id is always a canonical UUID string.         *)
(* REFERENCE model of the id of one object of each kind under              *)
(*   ctor(kind, in)     Document/Section/Property(oid = in)                *)
(*   new_id(kind, in)   obj.new_id(in)                                     *)
(* and the CONTRACT (IdStepOK) used by the judge.                          *)
(*                                                                         *)
(* Id tokens: "u1","u2" two fixed canonical UUIDs; "f<n>" any other        *)
(* canonical UUID string (numbered by first appearance within one case);   *)
(* "bad" anything that is not a canonical UUID string.                     *)
(* Input classes: "none"; canonical text of u1/u2 ("canon:u1");            *)
(* non-canonical spellings of u1 that RFC 4122 parsers accept ("upper:u1", *)
(* "braced:u1", "urn:u1", "nohyphen:u1"); malformed ("truncated",          *)
(* "garbage", "empty").                                                    *)
(***************************************************************************)
EXTENDS Naturals, Sequences, FiniteSets, TLC, Json
Kinds == {"doc", "sec", "prop"}
Canon == {"canon:u1", "canon:u2"}
NonCanon == {"upper:u1", "braced:u1", "urn:u1", "nohyphen:u1"}
Malformed == {"truncated", "garbage", "empty"}
Inputs == {"none"} \cup Canon \cup NonCanon \cup Malformed
Uuid(in) == IF in = "canon:u2" THEN "u2" ELSE "u1"
IsFresh(tok) == tok \notin {"u1", "u2", "bad", "absent"} 
IsCanonTok(tok) == tok # "bad" /\ tok # "absent"

\* reference: what the next id token is ("fresh" = a new canonical id)
RefPost(op, k, in, cur) ==
   IF op = "ctor" THEN
        IF in \in Canon \cup NonCanon THEN [out |-> "ok", id |-> Uuid(in)] ELSE [out |-> "ok", id |-> "fresh"]
   ELSE IF in = "none" THEN [out |-> "ok", id |-> "fresh"]
        ELSE IF in \in Canon \cup NonCanon THEN [out |-> "ok", id |-> Uuid(in)]
        ELSE [out |-> "raised", id |-> cur]

(***************************************************************************)
(* CONTRACT on one observed step o = [op, kind, in, out, pre, post] where  *)
(* pre/post are the id tokens of the object before/after ("absent" before  *)
(* a constructor).                                                         *)
(***************************************************************************)
\* nameis: "given" (the name handed to the constructor), "id" (equal to the object's id), "empty", "other", "-" (Document)
NameStepOK(o) == (o.kind # "doc" /\ o.out = "ok") =>
                    /\ o.nameis # "empty"
                    /\ (o.op = "ctor" => o.nameis = (IF o.named THEN "given" ELSE "id"))
IdCanonical(o) == IsCanonTok(o.post) \/ (o.op = "ctor" /\ o.out = "raised" /\ o.post = "absent")
IdStepOK(o) ==
   IF o.op = "ctor" THEN
        /\ o.out = "ok"                                   \* a malformed id never makes creation fail
        /\ (o.in \in Malformed \cup {"none"} => IsFresh(o.post))
        /\ (o.in \in Canon => o.post = Uuid(o.in))
        /\ (o.in \in NonCanon => o.post = Uuid(o.in) \/ IsFresh(o.post))
   ELSE /\ (o.in \in Malformed => o.out = "raised" /\ o.post = o.pre)
        /\ (o.in = "none" => o.out = "ok" /\ IsFresh(o.post) /\ o.post # o.pre)
        /\ (o.in \in Canon => o.out = "ok" /\ o.post = Uuid(o.in))
        /\ (o.in \in NonCanon => (o.out = "ok" /\ o.post = Uuid(o.in)) \/ (o.out = "raised" /\ o.post = o.pre))
        /\ (o.out = "raised" => o.post = o.pre)
====
