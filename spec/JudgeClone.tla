---- MODULE JudgeClone ----
(* Judge for C11 observations; also re-checks C03/C04 on every world a copy operation produced. *)
EXTENDS OdmlClone, Json, IOUtils
Obs == ndJsonDeserialize(IOEnv.OBS_FILE)
VARIABLE l
SigOf(o) == IF o.t = "clone" THEN <<"clone", o.pre.kind[o.x], IF o.children THEN "children" ELSE "no-children", IF o.keep THEN "keep_id" ELSE "new_id">>
            ELSE IF o.t = "export" THEN <<"export_leaf", o.pre.kind[o.x], IF o.pre.par[o.x] = NONE THEN "detached" ELSE "attached">>
            ELSE IF o.t = "edit" THEN <<"edit", o.edit, o.side, IF o.keep THEN "keep_id" ELSE "new_id">>
            ELSE <<"values-list", o.which>>
Say(tag, prop, clause, o) == PrintT(ToJson(<<tag, prop, clause, o.k, SigOf(o)>>))
Chk(P, prop, clause, o) == IF P THEN TRUE ELSE Say("VIOL", prop, clause, o)
Check(i) == LET o == Obs[i] IN
   /\ Chk(o.t = "clone" => ClonePost(o), "C11", "ClonePost", o)
   /\ Chk(o.t = "clone" => CloneFrame(o), "C11", "CloneLeavesOriginal", o)
   /\ Chk(o.t = "export" => ExportPost(o), "C11", "ExportLeafPost", o)
   /\ Chk(o.t = "export" => CloneFrame(o), "C11", "ExportLeavesOriginal", o)
   /\ Chk(o.t = "edit" => Frame(o), "C11", "Independent", o)
   /\ Chk(o.t = "valmut" => Unchanged(o.pre, o.post, DOMAIN o.pre.kind), "C11", "ValueListsAreCopies", o)
   /\ Chk(WFStruct(o.pre) => WFStruct(o.post), "C03", "WF", o)
   /\ Chk(UniqueSiblings(o.pre) => UniqueSiblings(o.post), "C04", "UniqueSiblings", o)
   /\ Chk(o.t = "edit" /\ o.out = "raised" => Unchanged(o.pre, o.post, DOMAIN o.pre.kind), "C06", "Atomic", o)
JInit == l = 1
JNext == l <= Len(Obs) /\ (Check(l) = TRUE) /\ l' = l + 1
JSpec == JInit /\ [][JNext]_l
Done == IF TLCGet("stats").diameter - 1 = Len(Obs) THEN TRUE
        ELSE PrintT(ToJson(<<"INCOMPLETE", TLCGet("stats").diameter - 1, Len(Obs)>>)) /\ FALSE
====
