---- MODULE OdmlLinksGen ----
(***************************************************************************)
(* Generator: every tree (as OdmlPathsGen) followed by every admissible    *)
(* placement of up to MaxLinks links (LinkShapeOK), each as absolute or    *)
(* relative path computed by the spec's own PathOf / RelPath.              *)
(***************************************************************************)
EXTENDS OdmlLinks, Json
CONSTANTS SecSeq, PropSeq, Names, MaxLinks
VARIABLES st, nxt, links
S3 == <<"s1","s2","s3">>
S4 == <<"s1","s2","s3","s4">>
S5 == <<"s1","s2","s3","s4","s5">>
P0 == <<>>
P1 == <<"p1">>
P2 == <<"p1","p2">>
AllIds == {"d1"} \cup SeqRange(SecSeq) \cup SeqRange(PropSeq)
Order == SecSeq \o PropSeq
\* position of a Section handle in SecSeq (handles are strings: TLC does not order strings)
Idx(h) == CHOOSE i \in 1..Len(SecSeq) : SecSeq[i] = h
Init == /\ st = [kind  |-> [x \in AllIds |-> IF x = "d1" THEN "doc" ELSE "unborn"],
                 kids  |-> [x \in AllIds |-> <<>>], plist |-> [x \in AllIds |-> <<>>],
                 par   |-> [x \in AllIds |-> NONE], name |-> [x \in AllIds |-> "-"],
                 type  |-> [x \in AllIds |-> "-"]]
        /\ nxt = 1 /\ links = {}
Grow == /\ links = {} /\ nxt <= Len(Order) /\ nxt' = nxt + 1 /\ UNCHANGED links
        /\ LET h == Order[nxt] IN
           \/ /\ nxt <= Len(SecSeq)
              /\ \E c \in Conts(st), n \in Names :
                   /\ \A y \in SeqRange(st.kids[c]) : st.name[y] # n
                   /\ st' = [st EXCEPT !.kind[h] = "sec", !.name[h] = n, !.type[h] = "t", !.par[h] = c, !.kids[c] = Append(@, h)]
           \/ /\ nxt > Len(SecSeq)
              /\ \E c \in Secs(st), n \in Names :
                   /\ \A y \in SeqRange(st.plist[c]) : st.name[y] # n
                   /\ st' = [st EXCEPT !.kind[h] = "prop", !.name[h] = n, !.par[h] = c, !.plist[c] = Append(@, h)]
\* links are added in increasing order of the linking Section so that each set is reached once
AddLink == /\ Cardinality(links) < MaxLinks /\ UNCHANGED <<st, nxt>>
           /\ \E L \in Secs(st), T \in Secs(st), f \in {"abs", "rel"} :
                /\ \A e \in links : Idx(e.L) < Idx(L)
                /\ LinkShapeOK(st, links \cup {[L |-> L, T |-> T, form |-> f]})
                /\ links' = links \cup {[L |-> L, T |-> T, form |-> f]}
Next == Grow \/ AddLink
Spec == Init /\ [][Next]_<<st, nxt, links>>
InvShape == LinkShapeOK(st, links)
\* model theorem: the path the spec renders for a link designates its target
ThmLinkPath == \A e \in links : Resolve(st, e.L, IF e.form = "abs" THEN PathOf(st, e.T) ELSE RelPath(st, e.L, e.T)) = e.T
SetToSeq(S) == CHOOSE s \in [1..Cardinality(S) -> S] : \A i, j \in 1..Cardinality(S) : i < j => Idx(s[i].L) < Idx(s[j].L)
Emit == links' # links =>
          PrintT(ToJson([st |-> st', links |-> [i \in 1..Cardinality(links') |->
                    LET e == SetToSeq(links')[i] IN
                    [L |-> e.L, T |-> e.T, form |-> e.form,
                     path |-> IF e.form = "abs" THEN PathOf(st', e.T) ELSE RelPath(st', e.L, e.T)]]]))
====
