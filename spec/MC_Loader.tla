---- MODULE MC_Loader ----
(***************************************************************************)
(* Model-checking instances of OdmlLoader and the CONTRACT of C18 on the   *)
(* model (LoaderContract): NoRaise, Transparent, SameCached, CacheSafe,    *)
(* Progress (no call blocks forever).  KnownErr lists exception classes of *)
(* known findings so that TLC keeps searching for other violations.        *)
(***************************************************************************)
EXTENDS OdmlLoader, IOUtils
AllTrue == [uu \in URLS |-> TRUE]
\* include graphs
IncChain == [A |-> <<"B">>, B |-> <<"C">>, C |-> <<>>, D |-> <<>>]
IncDiamond == [A |-> <<"B", "C">>, B |-> <<"D">>, C |-> <<"D">>, D |-> <<>>]
G == IOEnv.GRAPH
cInc == IF G \in {"chain", "missingleaf", "badleaf", "binaryleaf", "headeronly", "flatchain"} THEN IncChain ELSE IncDiamond
cFlat == G = "flatchain"
cFetch == IF G \in {"missingleaf", "binaryleaf"} THEN [AllTrue EXCEPT !["C"] = FALSE] ELSE AllTrue
cParse == IF G = "badleaf" THEN [AllTrue EXCEPT !["C"] = FALSE] ELSE AllTrue
\* caller programs
\* VARIANT = "template": the same program addressed to a TemplateHandler (its includes still go through the terminology loader)
TOp(o) == IF o = "load" THEN "tload" ELSE IF o = "deferred" THEN "tdeferred" ELSE o
IsT == IOEnv.VARIANT = "template"
P == IOEnv.PROG
cProg0 == CASE P = "dA_lA" -> << <<"deferred", "A">>, <<"load", "A">> >>
           [] P = "dA_lB" -> << <<"deferred", "A">>, <<"load", "B">> >>
           [] P = "dA_dB_lA_lA" -> << <<"deferred", "A">>, <<"deferred", "B">>, <<"load", "A">>, <<"load", "A">> >>
           [] P = "dD_dB_lD_lD" -> << <<"deferred", "D">>, <<"deferred", "B">>, <<"load", "D">>, <<"load", "D">> >>
           [] P = "lA_lA" -> << <<"load", "A">>, <<"load", "A">> >>
           [] P = "lD_dD_lD_lD" -> << <<"load", "D">>, <<"deferred", "D">>, <<"load", "D">>, <<"load", "D">> >>
           [] P = "lA_rA_lA" -> << <<"load", "A">>, <<"refresh", "A">>, <<"load", "A">> >>
           [] P = "dA_rA_lA_lA" -> << <<"deferred", "A">>, <<"refresh", "A">>, <<"load", "A">>, <<"load", "A">> >>
           [] P = "lC_rC_lC_lC" -> << <<"load", "C">>, <<"refresh", "C">>, <<"load", "C">>, <<"load", "C">> >>
           [] P = "lA_tC_rA_lA" -> << <<"load", "A">>, <<"touch", "C">>, <<"refresh", "A">>, <<"load", "A">> >>
           [] P = "lA_tC_rA_lA_lB_lC" -> << <<"load", "A">>, <<"touch", "C">>, <<"refresh", "A">>, <<"load", "A">>, <<"load", "B">>, <<"load", "C">> >>
           [] P = "dC_aC_lC" -> << <<"deferred", "C">>, <<"appear", "C">>, <<"load", "C">> >>
           [] P = "lC_aC_lC_lB" -> << <<"load", "C">>, <<"appear", "C">>, <<"load", "C">>, <<"load", "B">> >>
           [] P = "dA_tB_rA_lA_lB" -> << <<"deferred", "A">>, <<"touch", "B">>, <<"refresh", "A">>, <<"load", "A">>, <<"load", "B">> >>
           [] P = "dB_rA_lB_lA" -> << <<"deferred", "B">>, <<"refresh", "A">>, <<"load", "B">>, <<"load", "A">> >>
           [] OTHER -> << <<"load", "C">>, <<"deferred", "A">>, <<"load", "C">> >>
cProg == IF IsT THEN [nn \in DOMAIN cProg0 |-> <<TOp(cProg0[nn][1]), cProg0[nn][2]>>] ELSE cProg0
\* state of the download cache at the start: empty, warm (a fresh copy of every resource that exists) or
\* stale (an outdated copy of every resource, also of one that has vanished since)
CS == IOEnv.CACHE
cCache == [uu \in URLS |-> IF CS = "warm" /\ cFetch[uu] THEN "fresh" ELSE IF CS = "stale" THEN "stale" ELSE "absent"]
KnownErr == IF IOEnv.KNOWN = "none" THEN {} ELSE {"RuntimeError"}

NoRaise == \A p \in Procs : err[p] \in {"ok"} \cup KnownErr
\* results[ii][4]: the resource could be fetched and parsed when the call returned
Transparent == \A ii \in DOMAIN results :
                  IF results[ii][4] THEN results[ii][2] \notin {NoneV, Absent}
                  ELSE results[ii][2] = NoneV
\* "later loads return the same cached object until refresh": within one epoch (no refresh begun in between)
SameCached == \A ii, jj \in DOMAIN results : (results[ii][1] = results[jj][1] /\ results[ii][3] = results[jj][3] /\ results[ii][2] # NoneV /\ results[jj][2] # NoneV)
                                                  => results[ii][2] = results[jj][2]
\* a fetch that fails never creates or overwrites a cache file
CacheSafe == /\ \A uu \in cachew : avail[uu]
             /\ \A uu \in URLS : ~avail[uu] => cache[uu] = cCache[uu]
\* a fresh cache copy is never replaced except after a refresh; a stale or missing one is fetched before use
NeverServesStale == \A uu \in URLS : (loaded[uu] \notin {Absent, NoneV} \/ tloaded[uu] \notin {Absent, NoneV}) => cache[uu] = "fresh"
Stopped(p) == pc[p] \in {"Done", "HDead", "DDead", "THDead", "TDDead"}
\* a thread waiting to be started that never will be is not "blocked": it is not a call of anybody
\* nor is one that was created and never started (its creator died first, or its table entry was overwritten): joining it raises, it blocks nobody
IdleThread(p) == p \in Thr /\ pc[p] = "TBegin" /\ tstate[p] \in {"unborn", "created"}
Progress == (\A p \in Procs : Stopped(p) \/ IdleThread(p)) \/ ENABLED Next
====
