SPECIFICATION Spec
CONSTANTS MaxN = 3
INVARIANT TypeInv
VIEW View
ACTION_CONSTRAINT Emit
CHECK_DEADLOCK FALSE
