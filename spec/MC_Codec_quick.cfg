SPECIFICATION Spec
CONSTANTS Classes = {"p","c","q","n","l","r","s","m","u"}
 MaxLen = 2
 MaxVals = 2
INVARIANT ThmRoundTrip
ACTION_CONSTRAINT Emit
CHECK_DEADLOCK FALSE
