---- MODULE JudgeTree ----
(***************************************************************************)
(* Judge for observations of the real library's structural editing API.    *)
(* Reads an NDJSON file of observation records                             *)
(*    [k, src, op, out, exc, pre, post]                                    *)
(* and evaluates, record by record, the CONTRACT predicates of C03, C04    *)
(* and C06 (module OdmlWorld) in inductive form, plus conformance of the   *)
(* observed step to the REFERENCE model (OdmlTreeOps!Post).  Verdict lines *)
(* are printed as JSON arrays:                                             *)
(*    ["VIOL", property, clause, k, signature]                             *)
(*    ["DIVERGENCE", "-", "-", k, signature]   (contract holds, reference  *)
(*                                              predicted something else)  *)
(***************************************************************************)
EXTENDS OdmlTreeOps, Json, IOUtils
Obs == ndJsonDeserialize(IOEnv.OBS_FILE)
VARIABLE l

SigOf(o) == IF o.src = "model" THEN Sig(o.op, Core(o.pre)) ELSE <<o.op.name, o.src>>
Say(tag, prop, clause, o) == PrintT(ToJson(<<tag, prop, clause, o.k, SigOf(o)>>))
Chk(P, prop, clause, o) == IF P THEN TRUE ELSE Say("VIOL", prop, clause, o)

C03ok(o) == WF(o.pre) => WF(o.post)
\* observations of the repository's tests (src "test") may start from worlds the test made
\* ill-formed by poking at private attributes: those are judged only from well-formed worlds
C04u(o)  == ((o.src = "test" => WF(o.pre)) /\ UniqueSiblings(o.pre)) => UniqueSiblings(o.post)
C04n(o)  == NamesOK(o.pre) => NamesOK(o.post)
\* (finalize / clean of a whole document resolve several links one after the other and are C12's subject, not C06's)
C06ok(o) == (o.op.name \in {"doc:finalize", "doc:clean"}) \/ ((o.src = "test" => WF(o.pre)) => Atomic(o.pre, o.out, o.post))
\* a rename is judged with the observed fact which id the object carries (pre.idn, if the projection recorded it)
OpOf(o) == IF o.op.name = "rename" /\ "idn" \in DOMAIN o.pre
           THEN [name |-> "rename", x |-> o.op.x, n |-> o.op.n, idn |-> o.pre.idn[o.op.x]] ELSE o.op
Conforms(o) == [out |-> o.out, st |-> Core(o.post)] \in Post(Core(o.pre), OpOf(o))

Check(i) == LET o == Obs[i] IN
   /\ Chk(C03ok(o), "C03", "WF", o)
   /\ Chk(C04u(o), "C04", "UniqueSiblings", o)
   /\ Chk(C04n(o), "C04", "NamesOK", o)
   /\ Chk(C06ok(o), "C06", "Atomic", o)
   /\ IF o.src = "model" /\ C03ok(o) /\ C04u(o) /\ C04n(o) /\ C06ok(o) /\ ~Conforms(o)
      THEN Say("DIVERGENCE", "-", "-", o) ELSE TRUE

Init == l = 1
Next == l <= Len(Obs) /\ Check(l) /\ l' = l + 1
Spec == Init /\ [][Next]_l
Done == IF TLCGet("stats").diameter - 1 = Len(Obs) THEN TRUE
        ELSE PrintT(ToJson(<<"INCOMPLETE", TLCGet("stats").diameter - 1, Len(Obs)>>)) /\ FALSE
====
