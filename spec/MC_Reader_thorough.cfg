SPECIFICATION Spec
CONSTANTS MaxDefects = 3
INVARIANT TypeOK
VIEW View
ACTION_CONSTRAINT Emit
CHECK_DEADLOCK FALSE
