---- MODULE JudgeRegistry ----
(* Judge for C19 observations. *)
EXTENDS OdmlRegistryOps, IOUtils
Obs == ndJsonDeserialize(IOEnv.OBS_FILE)
VARIABLE l
Say(tag, prop, clause, o) == PrintT(ToJson(<<tag, prop, clause, o.k, <<o.op>> >>))
Chk(P, prop, clause, o) == IF P THEN TRUE ELSE Say("VIOL", prop, clause, o)
Check(i) == LET o == Obs[i] IN
   /\ Chk(RulesUnchanged(o), "C19", "DefaultRulesUnchanged", o)
   /\ Chk(ObservesOnly(o), "C19", "ObservesOnly", o)
   /\ Chk(Repeatable(o), "C19", "Repeatable", o)
   /\ Chk(CustomRepeatable(o), "C19", "Repeatable", o)
   /\ Chk(CustomPrivate(o), "C19", "CustomRulesStayPrivate", o)
   /\ Chk(CustomApplied(o), "C19", "CustomRulesAppliedByTheirInstanceOnly", o)
JInit == l = 1
JNext == l <= Len(Obs) /\ (Check(l) = TRUE) /\ l' = l + 1
JSpec == JInit /\ [][JNext]_l
Done == IF TLCGet("stats").diameter - 1 = Len(Obs) THEN TRUE
        ELSE PrintT(ToJson(<<"INCOMPLETE", TLCGet("stats").diameter - 1, Len(Obs)>>)) /\ FALSE
====
