SPECIFICATION Spec
CONSTANTS SecSeq <- S3
 PropSeq <- P2
 Names = {"a","b"}
 Types = {"t"}
INVARIANT ThmWF
ACTION_CONSTRAINT Emit
CHECK_DEADLOCK FALSE
