---- MODULE LoaderBeh ----
(***************************************************************************)
(* C18, direction spec -> code.  OdmlLoader with a history variable: the   *)
(* sequence of observable events (accesses to the shared tables, thread    *)
(* start / join) of the behaviour so far, in the vocabulary of the         *)
(* scheduler's event log.  Every terminal state of an exhaustive run is    *)
(* one complete behaviour of the model at event granularity (local labels  *)
(* do not show in hist, so behaviours that differ only in the order of     *)
(* local steps coincide); it is printed with the model's outcome and is    *)
(* replayed as a schedule into the real odml/terminology.py.               *)
(***************************************************************************)
EXTENDS LoaderEvents, Json
VARIABLE hist
Mover == CHOOSE p \in Procs : pc'[p] # pc[p]
Ev(p) == [tid |-> p, k |-> Kind[pc[p]], u |-> ArgU(p), t |-> ArgT(p)]
\* canonical order of local steps, as in LoaderTrace: a local label is left before anything else moves
IsLocalB(p) == pc[p] \notin DOMAIN Kind /\ pc[p] \notin {"Done", "HDead", "DDead", "THDead", "TDDead"}
StepOfB(p) == Load(p) \/ RawLoad(p) \/ Deferred(p) \/ TLoad(p) \/ TRawLoad(p) \/ TDeferred(p) \/ (p = Main /\ M(p)) \/ (p \in Thr /\ T(p))
BNext == \/ \E p \in Procs : /\ IsLocalB(p) /\ \A q \in Procs : q < p => ~IsLocalB(q)
                             /\ StepOfB(p) /\ hist' = hist
         \/ /\ \A p \in Procs : ~IsLocalB(p)
            /\ \E p \in Procs : pc[p] \in DOMAIN Kind /\ StepOfB(p) /\ hist' = Append(hist, Ev(p))
BInit == Init /\ hist = <<>>
BSpec == BInit /\ [][BNext]_<<vars, hist>>
Terminal == \A p \in Procs : Stopped(p) \/ IdleThread(p)
Outcome == [hist |-> hist, results |-> results, err |-> [p \in 0..nthr |-> err[p]],
            loaded |-> loaded, cache |-> cache, terminal |-> Terminal, graph |-> G, prog |-> P, cachestate |-> CS]
Dump == IF Terminal \/ ~ENABLED BNext THEN PrintT(ToJson(Outcome)) ELSE TRUE
\* sampling of long configurations: bound the number of events
Bound == Len(hist) <= 400
====
