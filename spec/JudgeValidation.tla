---- MODULE JudgeValidation ----
(* Judge for C08: one record per (document, validation root). *)
EXTENDS OdmlValidation, Json, IOUtils
Obs == ndJsonDeserialize(IOEnv.OBS_FILE)
VARIABLE l
ObsSet(o) == SeqRange(o.obs)
RootKind(o) == <<o.w.kind[o.root], IF o.detached THEN "stand-alone" ELSE "in-document">>
Say(o, clause, sig) == PrintT(ToJson(<<"VIOL", "C08", clause, o.k, sig>>))
C(o, ok, clause, sig) == IF ok THEN TRUE ELSE Say(o, clause, sig)
Check(i) == LET o == Obs[i] IN LET w == o.w IN LET S == ObsSet(o) IN
   /\ C(o, o.out = "ok", "TerminatesWithoutRaising", <<RootKind(o), o.exc>>)
   /\ (o.out # "ok" \/
        /\ C(o, RanksOK(w, o.root, S), "RanksOK", <<RootKind(o)>>)
        /\ C(o, SingleRulesOK(w, o.root, S), "ReportedIffViolated", <<RootKind(o), SingleMismatch(w, o.root, S)>>)
        /\ C(o, NoStrayIssues(w, o.root, S), "NoStrayIssues", <<RootKind(o)>>)
        /\ C(o, DepOK(w, o.root, S), "DependencyRule", <<RootKind(o)>>)
        /\ C(o, DupIdsOK(w, o.root, S), "DuplicateIds", <<RootKind(o)>>)
        /\ C(o, DupNamesOK(w, o.root, S), "DuplicateNames", <<RootKind(o)>>))
JInit == l = 1
JNext == l <= Len(Obs) /\ (Check(l) = TRUE) /\ l' = l + 1
JSpec == JInit /\ [][JNext]_l
Done == IF TLCGet("stats").diameter - 1 = Len(Obs) THEN TRUE
        ELSE PrintT(ToJson(<<"INCOMPLETE", TLCGet("stats").diameter - 1, Len(Obs)>>)) /\ FALSE
====
