SPECIFICATION Spec
CONSTANTS Depth = 4
 MaxInst = 2
INVARIANT TypeOK
ACTION_CONSTRAINT Emit
CHECK_DEADLOCK FALSE
