---- MODULE JudgeLoader ----
(* Judge for C18 observations (real executions under explored schedules). *)
EXTENDS LoaderContract, Json, IOUtils
Obs == ndJsonDeserialize(IOEnv.OBS_FILE)
VARIABLE l
\* what the caller saw raised, and which loader threads died of what (the caller is the first thread)
CallerRaised(o) == {o.results[i].res : i \in DOMAIN o.results} \ {"ok"}
ThreadsDied(o) == {o.errs[i] : i \in (DOMAIN o.errs) \ {1}} \ {"none"}
SigOf(o) == <<o.variant, CallerRaised(o), ThreadsDied(o)>>
Say(tag, prop, clause, o) == PrintT(ToJson(<<tag, prop, clause, o.k, SigOf(o)>>))
Chk(P, prop, clause, o) == IF P THEN TRUE ELSE Say("VIOL", prop, clause, o)
Check(i) == LET o == Obs[i] IN
   /\ Chk(NoRaise(o), "C18", "NoCallRaises", o)
   /\ Chk(Transparent(o), "C18", "LoadIsTransparent", o)
   /\ Chk(SameCached(o), "C18", "SameCachedObject", o)
   /\ Chk(CacheSafe(o), "C18", "FailedFetchWritesNoCache", o)
   /\ Chk(Terminates(o), "C18", "NoCallBlocksForever", o)
   /\ IF o.trace_checked /\ ~o.trace_accepted THEN Say("DIVERGENCE", "-", "-", o) ELSE TRUE
JInit == l = 1
JNext == l <= Len(Obs) /\ (Check(l) = TRUE) /\ l' = l + 1
JSpec == JInit /\ [][JNext]_l
Done == IF TLCGet("stats").diameter - 1 = Len(Obs) THEN TRUE
        ELSE PrintT(ToJson(<<"INCOMPLETE", TLCGet("stats").diameter - 1, Len(Obs)>>)) /\ FALSE
====
