---- MODULE JudgeLoader ----
(* Judge for C18 observations (real executions under explored schedules). *)
EXTENDS LoaderContract, Json, IOUtils
Obs == ndJsonDeserialize(IOEnv.OBS_FILE)
VARIABLE l
\* what the caller saw raised, and which loader threads died of what (the caller is the first thread)
\* spec -> code: a behaviour of OdmlLoader (LoaderBeh) replayed as a schedule.  The real code follows it iff it
\* produces the same sequence of observable events (same thread, same kind of access, same url / thread argument),
\* stops where the model stops, and ends with the same outcome: which loads returned None, which returned the same
\* document, which thread died of what, what the download cache holds.
IsBeh(o) == "model_log" \in DOMAIN o
Follows(o) == o.real_log = o.model_log /\ o.deadlock = ~o.model_terminal
SameOutcome(o) == /\ o.real_err = o.model_err
                  /\ Len(o.real_loads) = Len(o.model_loads)
                  /\ \A i \in DOMAIN o.real_loads : i \in DOMAIN o.model_loads =>
                        o.real_loads[i].url = o.model_loads[i].url /\ o.real_loads[i].none = o.model_loads[i].none
                  /\ \A i, j \in DOMAIN o.real_loads : (i \in DOMAIN o.model_loads /\ j \in DOMAIN o.model_loads /\ ~o.real_loads[i].none /\ ~o.real_loads[j].none) =>
                        ((o.real_loads[i].doc = o.real_loads[j].doc) <=> (o.model_loads[i].doc = o.model_loads[j].doc))
                  /\ o.real_cache = o.model_cache
CallerRaised(o) == {o.results[i].res : i \in DOMAIN o.results} \ {"ok"}
ThreadsDied(o) == {o.errs[i] : i \in (DOMAIN o.errs) \ {1}} \ {"none"}
\* the last component tells how the execution relates to what is known: a behaviour of the model replayed into the code either is
\* followed (the model predicts this outcome) or not; an execution found by the exploration of the real code needed at most one or
\* more preemptions
SigOf(o) == <<o.variant, CallerRaised(o), ThreadsDied(o),
              IF IsBeh(o) THEN (IF Follows(o) /\ SameOutcome(o) THEN "predicted-by-the-model" ELSE "not-predicted-by-the-model")
              ELSE IF o.preemptions <= 1 THEN "at-most-one-preemption" ELSE "two-or-more-preemptions">>
Say(tag, prop, clause, o) == PrintT(ToJson(<<tag, prop, clause, o.k, SigOf(o)>>))
Chk(P, prop, clause, o) == IF P THEN TRUE ELSE Say("VIOL", prop, clause, o)
Check(i) == LET o == Obs[i] IN
   /\ Chk(NoRaise(o), "C18", "NoCallRaises", o)
   /\ Chk(Transparent(o), "C18", "LoadIsTransparent", o)
   /\ Chk(SameCached(o), "C18", "SameCachedObject", o)
   /\ Chk(CacheSafe(o), "C18", "FailedFetchWritesNoCache", o)
   /\ Chk(Terminates(o), "C18", "NoCallBlocksForever", o)
   /\ Chk(FreshAfterRefresh(o), "C18", "RefreshShowsTheCurrentResources", o)
   /\ Chk(ReachableIsLoaded(o), "C18", "NoneOnlyForWhatCannotBeLoadedNow", o)
   /\ IF o.trace_checked /\ ~o.trace_accepted THEN Say("DIVERGENCE", "-", "-", o) ELSE TRUE
   /\ IF IsBeh(o) /\ ~(Follows(o) /\ SameOutcome(o)) THEN Say("DIVERGENCE", "-", "-", o) ELSE TRUE
JInit == l = 1
JNext == l <= Len(Obs) /\ (Check(l) = TRUE) /\ l' = l + 1
JSpec == JInit /\ [][JNext]_l
Done == IF TLCGet("stats").diameter - 1 = Len(Obs) THEN TRUE
        ELSE PrintT(ToJson(<<"INCOMPLETE", TLCGet("stats").diameter - 1, Len(Obs)>>)) /\ FALSE
====
