SPECIFICATION Spec
CONSTANTS SecSeq <- S4
 PropSeq <- P1
 Names = {"a","b"}
 MaxLinks = 1
INVARIANT InvShape
INVARIANT ThmLinkPath
ACTION_CONSTRAINT Emit
CHECK_DEADLOCK FALSE
