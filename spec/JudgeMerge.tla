---- MODULE JudgeMerge ----
(* Judge for C13 observations (and C03/C04/C06 on the merged worlds). *)
EXTENDS OdmlMerge, Json, IOUtils
Obs0 == ndJsonDeserialize(IOEnv.OBS_FILE)
VARIABLE l
\* the record field "src" names the observation source; the source root is "src_root"
Rec(i) == LET r == Obs0[i] IN [pre |-> r.pre, post |-> r.post, dst |-> r.dst, src |-> r.src_root, strict |-> r.strict,
                               out |-> r.out, exc |-> r.exc, conv |-> r.conv, k |-> r.k]
Cls(o) == <<IF o.strict THEN "strict" ELSE "lenient",
            IF Conflict(o.pre, o.dst, o.src) THEN "conflict" ELSE "no-conflict",
            IF Impossible(o.pre, o.conv, o.dst, o.src) THEN "impossible" ELSE "possible", o.out, o.exc>>
Say(tag, prop, clause, o) == PrintT(ToJson(<<tag, prop, clause, o.k, Cls(o)>>))
Chk(P, prop, clause, o) == IF P THEN TRUE ELSE Say("VIOL", prop, clause, o)
Check(i) == LET o == Rec(i) IN
   /\ Chk(MergeComplete(o), "C13", "MergeComplete", o)
   /\ Chk(SourceUntouched(o), "C13", "SourceUntouched", o)
   /\ Chk(OutsideUntouched(o), "C13", "OutsideUntouched", o)
   /\ Chk(StrictRefuses(o), "C13", "StrictRefuses", o)
   /\ Chk(ImpossibleRefused(o), "C13", "ImpossibleRefused", o)
   /\ Chk(AllOrNothing(o), "C13", "AllOrNothing", o)
   /\ Chk(AllOrNothing(o), "C06", "Atomic", o)
   /\ Chk(WFStruct(o.pre) => WFStruct(o.post), "C03", "WF", o)
   /\ Chk(UniqueSiblings(o.pre) => UniqueSiblings(o.post), "C04", "UniqueSiblings", o)
   \* a merge is refused only for a conflict the property names (strict mode) or because no merge can satisfy the
   \* postcondition; in particular texts that differ in case / whitespace only are no conflict
   /\ Chk(Justified(o), "C13", "RefusedOnlyForAConflict", o)
JInit == l = 1
JNext == l <= Len(Obs0) /\ (Check(l) = TRUE) /\ l' = l + 1
JSpec == JInit /\ [][JNext]_l
Done == IF TLCGet("stats").diameter - 1 = Len(Obs0) THEN TRUE
        ELSE PrintT(ToJson(<<"INCOMPLETE", TLCGet("stats").diameter - 1, Len(Obs0)>>)) /\ FALSE
====
