---- MODULE JudgeTemplate ----
(***************************************************************************)
(* Beyond the listed properties (id X02): TemplateHandler.clone_section    *)
(* and browse.  clone_section(url, name, children, keep_id) returns a      *)
(* clone (OdmlClone!ClonePost) of the top-level Section `name` of the      *)
(* template document the handler holds for url, and leaves that document   *)
(* alone; a name that no top-level Section carries raises KeyError, a      *)
(* resource that cannot be loaded ValueError; browse(url) returns the held *)
(* document itself.  o = [t, pre, post, x, y, children, keep, out, exc]    *)
(***************************************************************************)
EXTENDS OdmlClone, Json, IOUtils
Obs == ndJsonDeserialize(IOEnv.OBS_FILE)
VARIABLE l
SigOf(o) == <<o.t, IF o.children THEN "children" ELSE "no-children", IF o.keep THEN "keep_id" ELSE "new_id", o.out, o.exc>>
Say(tag, prop, clause, o) == PrintT(ToJson(<<tag, prop, clause, o.k, SigOf(o)>>))
Chk(P, prop, clause, o) == IF P THEN TRUE ELSE Say("VIOL", prop, clause, o)
Check(i) == LET o == Obs[i] IN
   /\ Chk(o.t = "clone_section" => ClonePost(o), "X02", "ClonedSectionIsACopy", o)
   /\ Chk(o.t \in {"clone_section", "browse"} => CloneFrame(o), "X02", "TemplateLeftAlone", o)
   /\ Chk(o.t = "missing_section" => (o.out = "raised" /\ o.exc = "KeyError"), "X02", "UnknownSectionIsKeyError", o)
   /\ Chk(o.t = "missing_resource" => (o.out = "raised" /\ o.exc = "ValueError"), "X02", "UnloadableResourceIsValueError", o)
   /\ Chk(o.t = "browse" => (o.out = "ok" /\ o.y = o.x), "X02", "BrowseReturnsTheHeldDocument", o)
JInit == l = 1
JNext == l <= Len(Obs) /\ (Check(l) = TRUE) /\ l' = l + 1
JSpec == JInit /\ [][JNext]_l
Done == IF TLCGet("stats").diameter - 1 = Len(Obs) THEN TRUE
        ELSE PrintT(ToJson(<<"INCOMPLETE", TLCGet("stats").diameter - 1, Len(Obs)>>)) /\ FALSE
====
