---- MODULE OdmlConvert ----
(***************************************************************************)
(* C15 - version conversion 1.0 -> 1.1 keeps the content and yields a      *)
(* loadable file.  CONTRACT on one observed conversion                     *)
(*   o = [src, res, out, strictload, logged, srcsame]                      *)
(* src: the abstract 1.0 document as it was rendered (per Section h:       *)
(*   name, idc; per Property h: name, named, idc, vals (the text of each   *)
(*   value element), cands[a] (the values attribute a has on the value     *)
(*   elements, in order), binary, depval (text or "none"), extras)         *)
(* res: what the strict reader loaded from the result (per object: found,  *)
(*   name, namerel ("same" | "suffixed" | "other"), id ("kept" | "fresh" | *)
(*   "bad"), vals, attrs)                                                  *)
(* logged[h][what]: the conversion log has an entry about `what` of h.     *)
(* In 1.0 one value element holds one value: the expected 1.1 value list   *)
(* is the sequence of the element texts, also when a text contains a comma.*)
(***************************************************************************)
EXTENDS Naturals, Sequences, FiniteSets, TLC
SecH == {"s1", "s2", "s3", "s4"}
PropH == {"p1", "p2", "p3", "p4", "p5"}
SecGroups == {{"s1", "s2"}, {"s3"}, {"s4"}}        \* s3 and s4 are cousins carrying the same name
PropGroups == {{"p1", "p2", "p5"}, {"p3"}, {"p4"}}
Lifted == {"unit", "dtype", "uncertainty", "value_origin", "definition", "reference"}
SeqRange(s) == {s[i] : i \in DOMAIN s}

Loads(o) == o.out = "ok" /\ o.strictload = "ok"
SameTree(o) == \A h \in SecH : o.res.secs[h].found /\ o.res.secs[h].namerel \in {"same", "suffixed"}
\* no name is changed in a group of siblings whose names are all different (where a clash exists the
\* numbering may also have to move a sibling whose own name looks like a generated one, e.g. "a-2")
SecUnique(o, h) == \A G \in SecGroups : h \in G => \A x, y \in G : x # y => o.src.secs[x].name # o.src.secs[y].name
PropUnique(o, h) == \A G \in PropGroups : h \in G => \A x, y \in G : (x # y /\ o.src.props[x].named /\ o.src.props[y].named) => o.src.props[x].name # o.src.props[y].name
NoNeedlessRename(o) == /\ \A h \in SecH : (o.res.secs[h].found /\ SecUnique(o, h)) => o.res.secs[h].namerel = "same"
                       /\ \A h \in PropH : (o.src.props[h].named /\ o.res.props[h].found /\ PropUnique(o, h)) => o.res.props[h].namerel = "same"
UniqueNames(o) == /\ \A G \in SecGroups : \A a, b \in G : a # b => o.res.secs[a].name # o.res.secs[b].name
                  /\ \A G \in PropGroups : \A a, b \in G : (a # b /\ o.res.props[a].found /\ o.res.props[b].found) => o.res.props[a].name # o.res.props[b].name
NamedKept(o) == \A h \in PropH : o.src.props[h].named => (o.res.props[h].found /\ o.res.props[h].namerel \in {"same", "suffixed"})
ValuesKept(o) == \A h \in PropH : (o.src.props[h].named /\ o.res.props[h].found) => o.res.props[h].vals = o.src.props[h].vals
AttrsLifted(o) == \A h \in PropH : (o.src.props[h].named /\ o.res.props[h].found) => \A a \in Lifted :
                     LET c == o.src.props[h].cands[a] IN
                     IF c = <<>> THEN (a = "dtype" \/ o.res.props[h].attrs[a] = "none")       \* without a type the reader infers one
                     ELSE /\ o.res.props[h].attrs[a] \in SeqRange(c)
                          /\ (Cardinality(SeqRange(c)) > 1 => o.logged[h][a])
LiftMismatch(o) == {a \in Lifted : \E h \in PropH : o.src.props[h].named /\ o.res.props[h].found /\
                       LET c == o.src.props[h].cands[a] IN
                       ~(IF c = <<>> THEN (a = "dtype" \/ o.res.props[h].attrs[a] = "none")
                         ELSE o.res.props[h].attrs[a] \in SeqRange(c) /\ (Cardinality(SeqRange(c)) > 1 => o.logged[h][a]))}
DepValKept(o) == \A h \in PropH : (o.src.props[h].named /\ o.res.props[h].found) => o.res.props[h].attrs.dependency_value = o.src.props[h].depval
IdsOK(o) == /\ \A h \in SecH : o.res.secs[h].found => o.res.secs[h].id = (IF o.src.secs[h].idc = "valid" THEN "kept" ELSE "fresh")
            /\ \A h \in PropH : o.res.props[h].found => o.res.props[h].id = (IF o.src.props[h].idc = "valid" THEN "kept" ELSE "fresh")
            /\ o.res.docid = (IF o.src.docidc = "valid" THEN "kept" ELSE "fresh")
DropsLogged(o) == /\ \A h \in PropH : ~o.src.props[h].named => (~o.res.props[h].found /\ o.logged[h].unnamed)
                  /\ \A h \in PropH : (o.src.props[h].named /\ o.src.props[h].extra) => o.logged[h].extra
                  /\ \A h \in PropH : (o.src.props[h].named /\ o.src.props[h].vextra) => o.logged[h].vextra
                  /\ \A h \in SecH : o.src.secs[h].extra => o.logged[h].extra
                  /\ (o.src.docextra => o.logged.d1.extra)
SourceUntouched(o) == o.srcsame
====
