---- MODULE OdmlDump ----
(***************************************************************************)
(* Beyond the listed properties (id X04): what odml.tools.dumper.dump_doc  *)
(* prints.  dump_doc(doc) prints every top-level Section with              *)
(* dump_section(sec, 1); dump_section(x, w) prints                         *)
(*    one line "*name (attributes)" for x, right-aligned blank of width w  *)
(*    one line ":name (attributes)" per Property of x, in order, width w+1 *)
(*    and the dump of every sub-Section, in order, with width 2 * w        *)
(* (so a Section at depth d is printed with width 2^d).  The attribute     *)
(* text lists exactly the set attributes among the given ones, in the      *)
(* given order: for a Section type, definition, link, include, repository; *)
(* for a Property definition, values, uncertainty, unit, dtype, dependency.*)
(* An entry is [k |-> "sec" | "prop", n |-> name, sp |-> width,            *)
(*              at |-> sequence of the attribute names printed].           *)
(***************************************************************************)
EXTENDS OdmlWorld
E(k, n, sp, at) == [k |-> k, n |-> n, sp |-> sp, at |-> at]
RECURSIVE Pow2(_)
Pow2(d) == IF d = 0 THEN 1 ELSE 2 * Pow2(d - 1)
SecAttrOrder == <<"type", "definition", "link", "include", "repository">>
PropAttrOrder == <<"definition", "values", "uncertainty", "unit", "dtype", "dependency">>
\* set[x]: the set of attribute names that are set on x (an observed fact of the world; "values" is always printed)
Printed(order, have) == SelectSeq(order, LAMBDA a : a \in have)
RECURSIVE SecDump(_, _, _, _, _)
RECURSIVE SubDumps(_, _, _, _, _, _)
PropLines(st, set, x, d) == [i \in DOMAIN st.plist[x] |->
                               E("prop", st.name[st.plist[x][i]], Pow2(d) + 1, Printed(PropAttrOrder, set[st.plist[x][i]]))]
SubDumps(st, set, x, d, i, fuel) ==
   IF i > Len(st.kids[x]) \/ fuel = 0 THEN <<>>
   ELSE SecDump(st, set, st.kids[x][i], d + 1, fuel - 1) \o SubDumps(st, set, x, d, i + 1, fuel)
SecDump(st, set, x, d, fuel) ==
   <<E("sec", st.name[x], Pow2(d), Printed(SecAttrOrder, set[x]))>> \o PropLines(st, set, x, d) \o SubDumps(st, set, x, d, 1, fuel)
DocDump(st, set, doc) ==
   LET RECURSIVE Tops(_)
       Tops(i) == IF i > Len(st.kids[doc]) THEN <<>>
                  ELSE SecDump(st, set, st.kids[doc][i], 0, Cardinality(DOMAIN st.kind) + 1) \o Tops(i + 1)
   IN Tops(1)
\* o = [st, set (handle -> sequence of set attribute names), doc, lines, out]
SetOf(o) == [x \in DOMAIN o.set |-> {o.set[x][i] : i \in DOMAIN o.set[x]}]
DumpOK(o) == o.out = "ok" /\ o.lines = DocDump(o.st, SetOf(o), o.doc)
====
