SPECIFICATION Spec
CONSTANTS MaxPairs = 3
ACTION_CONSTRAINT Emit
CHECK_DEADLOCK FALSE
