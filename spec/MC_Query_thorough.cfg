SPECIFICATION Spec
CONSTANTS MaxPairs = 4
ACTION_CONSTRAINT Emit
CHECK_DEADLOCK FALSE
