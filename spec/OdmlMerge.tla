---- MODULE OdmlMerge ----
(***************************************************************************)
(* C13 - merging one Section into another is complete, conservative and    *)
(* all-or-nothing.  CONTRACT over full worlds (see OdmlClone) observed     *)
(* before and after  dst.merge(src, strict).  Additional facts recorded    *)
(* with each observation:                                                  *)
(*   attrs[x].definition_n / reference_n / value_origin_n : the text       *)
(*       lower-cased with all whitespace removed ("none" if unset)         *)
(*   conv[q] : for a source Property q that has a counterpart p in the     *)
(*       destination, the values of q converted to the dtype of p by the   *)
(*       library's own dtypes.get, as a record keyed by the text of that   *)
(*       dtype (a value that does not convert is the record Unconv)        *)
(***************************************************************************)
EXTENDS OdmlClone
Unconv == [t |-> "!unconvertible", e |-> <<>>]
ConvFor(pre, conv, d, s) == conv[s][pre.attrs[d].dtype]

\* the child of destination container d that src child c is merged into, NONE if there is none
Counterpart(st, d, c) ==
   IF st.kind[c] = "sec"
   THEN LET S == {i \in DOMAIN st.kids[d] : st.name[st.kids[d][i]] = st.name[c] /\ st.attrs[st.kids[d][i]].type = st.attrs[c].type} IN
        IF S = {} THEN NONE ELSE st.kids[d][CHOOSE i \in S : \A j \in S : i <= j]
   ELSE LET S == {i \in DOMAIN st.plist[d] : st.name[st.plist[d][i]] = st.name[c]} IN
        IF S = {} THEN NONE ELSE st.plist[d][CHOOSE i \in S : \A j \in S : i <= j]
ChildrenOf(st, x) == SeqRange(st.kids[x]) \cup SeqRange(st.plist[x])
Set(a) == a # "none"
Differ(pre, d, s, a) == Set(pre.attrs[d][a]) /\ Set(pre.attrs[s][a]) /\ pre.attrs[d][a] # pre.attrs[s][a]

\* ---- strict-mode conflict anywhere in the two trees ----
RECURSIVE ConflictB(_,_,_,_)
ConflictB(pre, d, s, n) ==
   /\ n > 0
   /\ IF pre.kind[s] = "prop"
      THEN \E a \in {"dtype", "unit", "uncertainty", "definition_n", "reference_n", "value_origin_n"} : Differ(pre, d, s, a)
      ELSE \/ Differ(pre, d, s, "definition_n") \/ Differ(pre, d, s, "reference_n")
           \/ \E c \in ChildrenOf(pre, s) : Counterpart(pre, d, c) # NONE /\ ConflictB(pre, Counterpart(pre, d, c), c, n - 1)
Conflict(pre, d, s) == ConflictB(pre, d, s, Cardinality(DOMAIN pre.kind) + 1)
\* ---- situations in which no merge can satisfy the postcondition: refusal is the only correct outcome ----
RECURSIVE ImpossibleB(_,_,_,_,_)
ImpossibleB(pre, conv, d, s, n) ==
   /\ n > 0
   /\ IF pre.kind[s] = "prop" THEN Unconv \in SeqRange(ConvFor(pre, conv, d, s))
      ELSE \E c \in ChildrenOf(pre, s) :
             IF Counterpart(pre, d, c) # NONE THEN ImpossibleB(pre, conv, Counterpart(pre, d, c), c, n - 1)
             ELSE pre.kind[c] = "sec" /\ \E i \in DOMAIN pre.kids[d] : pre.name[pre.kids[d][i]] = pre.name[c]   \* same name, other type
Impossible(pre, conv, d, s) == ImpossibleB(pre, conv, d, s, Cardinality(DOMAIN pre.kind) + 1)

\* ---- postcondition of a successful merge of s into d (d2: the same object after the merge) ----
Fill(pre, post, d, s, a) == post.attrs[d][a] = (IF Set(pre.attrs[d][a]) THEN pre.attrs[d][a] ELSE pre.attrs[s][a])
IsPrefix(a, b) == Len(a) <= Len(b) /\ SubSeq(b, 1, Len(a)) = a
RECURSIVE MergedB(_,_,_,_,_,_)
MergedB(pre, post, conv, d, s, n) ==
   /\ n > 0
   /\ post.name[d] = pre.name[d] /\ post.id[d] = pre.id[d]
   /\ IF pre.kind[s] = "prop"
      THEN /\ \A a \in {"definition", "reference", "unit", "uncertainty", "value_origin"} : Fill(pre, post, d, s, a)
           /\ \A a \in {"dependency", "dependency_value", "val_cardinality"} : post.attrs[d][a] = pre.attrs[d][a]
           /\ (Set(pre.attrs[d].dtype) => post.attrs[d].dtype = pre.attrs[d].dtype)
           /\ IsPrefix(pre.vals[d], post.vals[d])                                     \* keeps its own values, first
           /\ SeqRange(ConvFor(pre, conv, d, s)) \subseteq SeqRange(post.vals[d])                      \* gains every source value
           /\ SeqRange(post.vals[d]) \subseteq SeqRange(pre.vals[d]) \cup SeqRange(ConvFor(pre, conv, d, s))   \* and nothing else
      ELSE /\ Fill(pre, post, d, s, "definition") /\ Fill(pre, post, d, s, "reference")
           /\ \A a \in {"type", "repository", "link", "include", "sec_cardinality", "prop_cardinality"} : post.attrs[d][a] = pre.attrs[d][a]
           \* every child of the source has a counterpart afterwards
           /\ \A c \in ChildrenOf(pre, s) :
                LET c0 == Counterpart(pre, d, c) IN
                IF c0 # NONE THEN c0 \in ChildrenOf(post, d) /\ MergedB(pre, post, conv, c0, c, n - 1)
                ELSE \E c2 \in ChildrenOf(post, d) : New(pre, c2) /\ Equal(pre, c, post, c2) /\ post.par[c2] = d
           \* children of the destination that the source lacks are unchanged
           /\ \A c1 \in ChildrenOf(pre, d) :
                (\A c \in ChildrenOf(pre, s) : Counterpart(pre, d, c) # c1) =>
                     c1 \in ChildrenOf(post, d) /\ \A z \in Sub(pre, c1) : FullOf(post, z) = FullOf(pre, z)
           \* nothing else appears
           /\ \A c2 \in ChildrenOf(post, d) : c2 \in ChildrenOf(pre, d) \/
                  (New(pre, c2) /\ \E c \in ChildrenOf(pre, s) : Counterpart(pre, d, c) = NONE /\ Equal(pre, c, post, c2))
Merged(pre, post, conv, d, s) == MergedB(pre, post, conv, d, s, Cardinality(DOMAIN pre.kind) + 1)

\* o = [pre, post, dst, src, strict, out, exc, conv]
MergeComplete(o) == o.out = "ok" => Merged(o.pre, o.post, o.conv, o.dst, o.src)
SourceUntouched(o) == Unchanged(o.pre, o.post, Sub(o.pre, o.src))
OutsideUntouched(o) == Unchanged(o.pre, o.post, DOMAIN o.pre.kind \ Sub(o.pre, o.dst))
StrictRefuses(o) == (o.strict /\ Conflict(o.pre, o.dst, o.src)) => (o.out = "raised" /\ o.exc = "ValueError")
ImpossibleRefused(o) == Impossible(o.pre, o.conv, o.dst, o.src) => o.out = "raised"
AllOrNothing(o) == o.out = "raised" => Unchanged(o.pre, o.post, DOMAIN o.pre.kind) /\ DOMAIN o.post.kind = DOMAIN o.pre.kind
Justified(o) == o.out = "raised" => (o.strict /\ Conflict(o.pre, o.dst, o.src)) \/ Impossible(o.pre, o.conv, o.dst, o.src)
====
