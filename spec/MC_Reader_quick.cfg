SPECIFICATION Spec
CONSTANTS MaxDefects = 2
INVARIANT TypeOK
VIEW View
ACTION_CONSTRAINT Emit
CHECK_DEADLOCK FALSE
