---- MODULE OdmlInherit ----
(***************************************************************************)
(* Beyond the listed properties: which repository governs an object and    *)
(* what its terminology equivalent is.                                     *)
(*   get_repository()            a Section's own repository, else the one  *)
(*                               of the nearest ancestor that has one      *)
(*                               (finally the Document's); a Document's    *)
(*                               own                                        *)
(*   get_terminology_equivalent()                                          *)
(*      Document  -> the terminology document of its repository            *)
(*      Section   -> a Section of that terminology with the same type      *)
(*                   (any one, "find one if any exists"), None if there is *)
(*                   none or no repository governs the Section             *)
(*      Property  -> the Property of its Section's equivalent that has the *)
(*                   same name, None if there is none                      *)
(* st is a world (OdmlWorld vocabulary) with st.repo[x] (own repository,   *)
(* "none" if unset) and st.type[x]; terms[u] is the world of the           *)
(* terminology document loaded for url u (root handle "t").                *)
(* o = [st, terms, repos (observed get_repository per object),             *)
(*      equiv (observed equivalent per object: [u, h] or "none")]          *)
(***************************************************************************)
EXTENDS OdmlWorld
RECURSIVE RepoB(_, _, _)
RepoB(st, x, n) == IF st.repo[x] # "none" \/ n = 0 \/ st.kind[x] = "doc" \/ st.par[x] = NONE THEN st.repo[x]
                   ELSE RepoB(st, st.par[x], n - 1)
Governing(st, x) == RepoB(st, x, Cardinality(DOMAIN st.kind))
Loaded(terms, u) == u \in DOMAIN terms
TSecs(tw) == {y \in DOMAIN tw.kind : tw.kind[y] = "sec"}
Candidates(st, terms, x) == LET u == Governing(st, x) IN
                            IF u = "none" \/ ~Loaded(terms, u) THEN {} ELSE {y \in TSecs(terms[u]) : terms[u].type[y] = st.type[x]}
NoneEq == [u |-> "none", h |-> "none"]
RepoOK(o, x) == o.st.kind[x] \in {"doc", "sec"} => o.repos[x] = Governing(o.st, x)
EquivOK(o, x) ==
   LET st == o.st IN
   CASE st.kind[x] = "doc" -> o.equiv[x] = (IF st.repo[x] # "none" /\ Loaded(o.terms, st.repo[x]) THEN [u |-> st.repo[x], h |-> "t"] ELSE NoneEq)
     [] st.kind[x] = "sec" -> IF Candidates(st, o.terms, x) = {} THEN o.equiv[x] = NoneEq
                              ELSE o.equiv[x].u = Governing(st, x) /\ o.equiv[x].h \in Candidates(st, o.terms, x)
     [] st.kind[x] = "prop" ->
          IF st.par[x] = NONE \/ o.equiv[st.par[x]] = NoneEq THEN o.equiv[x] = NoneEq
          ELSE LET e == o.equiv[st.par[x]] IN LET tw == o.terms[e.u] IN
               LET M == {i \in DOMAIN tw.plist[e.h] : tw.name[tw.plist[e.h][i]] = st.name[x]} IN
               IF M = {} THEN o.equiv[x] = NoneEq
               ELSE o.equiv[x] = [u |-> e.u, h |-> tw.plist[e.h][CHOOSE i \in M : \A j \in M : i <= j]]
     [] OTHER -> TRUE
====
