---- MODULE OdmlSaveOps ----
(***************************************************************************)
(* C07 - save never writes an invalid document and a failed save harms no  *)
(* file.  One action Save over the product                                 *)
(*   validity x serialisation fault x format x target-file state x entry   *)
(* There is no "abort" action and no "file half written" state: file' is   *)
(* either the old state or the complete new document.                      *)
(***************************************************************************)
EXTENDS Naturals, Sequences, FiniteSets, TLC, Json
Validity == {"valid", "warnings", "missing-type", "dup-ids", "dup-names"}
ErrorsV == {"missing-type", "dup-ids", "dup-names"}
Faults == {"none", "text-xml-cannot-hold", "attribute-json-cannot-encode", "text-file-cannot-encode"}
\* text-file-cannot-encode: a lone surrogate (as os.fsdecode produces for undecodable file names):
\* a str the UTF-8 file encoding cannot hold; whether a format escapes or refuses it is unspecified
Formats == {"XML", "JSON", "YAML", "RDF:xml", "RDF:turtle", "RDF:nt", "RDF:n3", "RDF:json-ld", "RDF:bogus"}
FileStates == {"absent", "old"}
Entries == {"odml.save", "ODMLWriter.write_file", "XMLWriter.write_file", "RDFWriter.write_file"}
Validating == {"odml.save", "ODMLWriter.write_file"}
Fits(e, f) == (e = "XMLWriter.write_file" => f = "XML") /\ (e = "RDFWriter.write_file" => f \notin {"XML", "JSON", "YAML"})
\* wmode "error": the caller has turned warnings into exceptions (python -W error); then the
\* report of a warnings-only document is itself a way for the save to raise
\* variant: where in the tree the defect sits (1: top-level siblings, 2: parent and child / nested,
\* 3: different branches at depth >= 2, as a keep_id clone appended elsewhere produces; 4, 5: see Valid)
\* prior: "fresh" - the writer object is new; "reused" - the same writer object has saved the document before, to another
\*        path, while the document was still valid and free of faults; the document was then edited into the case's state
\* tname: "ext" - the target name carries its extension; "noext" - it has none and odml.save appends the backend's,
\*        so the file at stake (absent / holding earlier data) is <name>.<backend>
Cases == {[validity |-> v, fault |-> ft, fmt |-> f, file |-> fs, entry |-> e, opt |-> o, wmode |-> w, variant |-> n, prior |-> pr, tname |-> tn] :
             v \in Validity, ft \in Faults, f \in Formats, fs \in FileStates, e \in Entries,
             o \in {"plain", "local_style", "custom_template", "template_tuple"}, w \in {"default", "error"}, n \in 1..5,
             pr \in {"fresh", "reused"}, tn \in {"ext", "noext"}}
Valid(c) == Fits(c.entry, c.fmt)
            /\ (c.prior = "reused" => c.entry # "odml.save" /\ c.opt = "plain" /\ c.wmode = "default" /\ c.tname = "ext" /\ c.fault \in {"none", "text-xml-cannot-hold"})
            /\ (c.tname = "noext" => c.entry = "odml.save" /\ c.opt = "plain" /\ c.wmode = "default") /\ (c.opt # "plain" => c.fmt = "XML") /\ (c.wmode = "error" => c.validity = "warnings" /\ c.entry \in Validating)
            /\ (c.variant > 1 => c.validity \in ErrorsV /\ c.fault = "none" /\ c.opt = "plain")
            /\ (c.variant = 4 => c.validity = "dup-ids")          \* 4: a Section carries the id of its own Document
            \* 5: the defect sits in a copy that a resolved link brought into the document and that was edited afterwards

\* REFERENCE: does the serialisation itself fail for this case?
SerialisationFails(c) == \/ c.fmt = "RDF:bogus"
                         \/ (c.fault = "text-xml-cannot-hold" /\ c.fmt = "XML")
                         \/ (c.fault = "attribute-json-cannot-encode" /\ c.fmt = "JSON")
RefOutcome(c) == IF c.entry \in Validating /\ c.validity \in ErrorsV THEN "ParserException"
                 ELSE IF c.wmode = "error" THEN "raised"
                 ELSE IF SerialisationFails(c) THEN "raised" ELSE "saved"

(***************************************************************************)
(* CONTRACT on an observation                                              *)
(*   o = [c, out ("saved" | "raised"), exc, before, after, warned, loads]  *)
(* before/after: state of the directory's target ("absent", "old",         *)
(* "new": a complete file different from the old one, "damaged": anything  *)
(* else - empty, truncated or otherwise changed old content), loads: the   *)
(* written file loads again to the saved document.                         *)
(***************************************************************************)
RefusesInvalid(o) == (o.c.entry \in Validating /\ o.c.validity \in ErrorsV) => (o.out = "raised" /\ o.exc = "ParserException")
FailedSaveHarmless(o) == o.out = "raised" => o.after = o.before
WarningsOnlyIsSaved(o) == (o.c.validity = "warnings" /\ ~SerialisationFails(o.c) /\ o.c.fault # "text-file-cannot-encode" /\ o.c.entry \in Validating /\ o.c.wmode = "default") => (o.out = "saved" /\ o.warned)
\* (whether a document carrying a planted fault, or an invalid one written by a lower-level writer,
\* loads again is not part of C07)
SavedIsLoadable(o) == o.out = "saved" => (o.after = "new" /\ ((o.c.fault = "none" /\ o.c.validity \notin ErrorsV) => o.loads))
\* (what the non-validating RDF writer does with an invalid copy inside a resolved link is not specified by the reference)
Conforms(o) == o.c.fault = "text-file-cannot-encode" \/ o.c.opt = "template_tuple" \/ (o.c.variant = 5 /\ o.c.entry = "RDFWriter.write_file") \/ ((RefOutcome(o.c) = "saved") <=> (o.out = "saved"))
====
