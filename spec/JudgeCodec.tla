---- MODULE JudgeCodec ----
(* Judge for the value-text codec observations (C01 for XML, C02 for JSON/YAML). *)
EXTENDS ValueCodecOps, Json, IOUtils
Obs == ndJsonDeserialize(IOEnv.OBS_FILE)
VARIABLE l
Special(o) == {c \in {"c", "q", "n", "l", "r", "s", "m", "u"} : \E i \in DOMAIN o.vs : Has(o.vs[i], {c})}
SigOf(o) == <<IF Len(o.vs) = 1 THEN "single" ELSE "several", IF Representable(o.vs) THEN "representable" ELSE "unrepresentable", Special(o)>>
Say(tag, prop, clause, o) == PrintT(ToJson(<<tag, prop, clause, o.k, SigOf(o)>>))
Chk(P, prop, clause, o) == IF P THEN TRUE ELSE Say("VIOL", prop, clause, o)
Check(i) == LET o == Obs[i] IN
   /\ Chk(o.stored = o.vs => RoundTripXml(o), "C01", "ValuesRoundTripXml", o)
   /\ Chk(o.stored = o.vs => WriterOK(o), "C01", "WrittenValueTextConformsTo1.1", o)
   /\ Chk(ReaderOK(o), "C01", "ForeignValueTextIsRead", o)
   /\ Chk(o.stored = o.vs => o.json = o.vs, "C02", "ValuesRoundTripJson", o)
   /\ Chk(o.stored = o.vs => o.yaml = o.vs, "C02", "ValuesRoundTripYaml", o)
JInit == l = 1
JNext == l <= Len(Obs) /\ (Check(l) = TRUE) /\ l' = l + 1
JSpec == JInit /\ [][JNext]_l
Done == IF TLCGet("stats").diameter - 1 = Len(Obs) THEN TRUE
        ELSE PrintT(ToJson(<<"INCOMPLETE", TLCGet("stats").diameter - 1, Len(Obs)>>)) /\ FALSE
====
