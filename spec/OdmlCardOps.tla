---- MODULE OdmlCardOps ----
(***************************************************************************)
(* C09 - cardinalities: normal form, exact violation reports, never        *)
(* enforced, persisted.                                                    *)
(*                                                                         *)
(* A cardinality is a pair <<min, max>>; the bound "none" (Python None) is *)
(* written N (= 99); the unset cardinality (Python None) is <<N, N>>.      *)
(* Inputs x of an assignment are records:                                  *)
(*   [t |-> "none"]                       None                             *)
(*   [t |-> "int", v |-> k]               a single integer                 *)
(*   [t |-> "pair", a |-> a, b |-> b, l |-> BOOLEAN]   (a, b) / [a, b]     *)
(*   [t |-> "str"], [t |-> "float"], [t |-> "pairfloat"], [t |-> "tuple1"],*)
(*   [t |-> "tuple3"]                     forms that are never accepted    *)
(* FormatCard is a transcription of the documented normal-form rules; it   *)
(* is the REFERENCE.  The CONTRACT is CardNF / SetOK / WarnOK / FreeEdit / *)
(* Persisted.                                                              *)
(***************************************************************************)
EXTENDS Integers, Sequences, FiniteSets, TLC
N == 99
Unset == <<N, N>>
Raise == <<100, 100>>      \* "the assignment is refused"
Bound(b) == b = N \/ (b \in Nat)
CardNF(c) == /\ Bound(c[1]) /\ Bound(c[2])
             /\ (c = Unset \/ ~(c[1] = N /\ c[2] = N))
             /\ (c[1] # N /\ c[2] # N => c[1] <= c[2])
             /\ (c # Unset => ~(c[1] \in {0, N} /\ c[2] \in {0, N}))

Falsy(b) == b = N \/ b = 0
\* wrong-length sequences (also those holding only zeros / None) and other types are never accepted;
\* empty / zero objects of other types ((), [], "", 0.0) are a grey zone like 0: refused or "unset"
\* samefloat: the current setting written with floats ((1.0, 2.0) while (1, 2) is set)
WrongForms == {"str", "float", "pairfloat", "samefloat", "tuple1", "tuple3", "tuple3z", "tuple1n", "list1z", "tuple3n", "pairstr"}
GreyForms == {"tuple0", "list0", "emptystr", "float0"}
\* REFERENCE: result of assigning x, Raise when refused
FormatCard(x) ==
   CASE x.t = "none" -> Unset
     [] x.t = "int" -> IF x.v = 0 THEN Unset ELSE IF x.v > 0 THEN <<N, x.v>> ELSE Raise
     [] x.t = "pair" ->
          IF Falsy(x.a) /\ Falsy(x.b) THEN Unset
          ELSE LET mi == x.a # N /\ x.a >= 0 IN LET ma == x.b # N /\ x.b >= 0 IN
               IF mi /\ ma /\ x.b >= x.a THEN <<x.a, x.b>>
               ELSE IF ma /\ Falsy(x.a) THEN <<N, x.b>>
               ELSE IF mi /\ Falsy(x.b) THEN <<x.a, N>>
               ELSE Raise
     [] x.t \in GreyForms -> Unset
     [] OTHER -> Raise

\* CONTRACT classes of inputs
ClearlyValid(x) == \/ x.t = "none"
                   \/ (x.t = "int" /\ x.v >= 1)
                   \/ (x.t = "pair" /\ (x.a = N \/ x.a >= 1) /\ (x.b = N \/ x.b >= 1)
                          /\ ~(x.a = N /\ x.b = N) /\ (x.a # N /\ x.b # N => x.a <= x.b))
Meaning(x) == IF x.t = "none" THEN Unset ELSE IF x.t = "int" THEN <<N, x.v>> ELSE <<x.a, x.b>>
ClearlyInvalid(x) == \/ x.t \in WrongForms
                     \/ (x.t = "int" /\ x.v < 0)
                     \/ (x.t = "pair" /\ ((x.a # N /\ x.a < 0) \/ (x.b # N /\ x.b < 0)))
                     \/ (x.t = "pair" /\ x.a # N /\ x.b # N /\ x.a >= 1 /\ x.b >= 1 /\ x.a > x.b)
\* everything else (zeros, (None, None)) is a grey zone: refused-and-kept or accepted-in-normal-form

\* o = [kind, op, out, exc, pre, post]; pre/post = [card, count, warn]
SetOK(o) == LET x == o.op.x IN
   /\ (o.out = "raised" => o.post.card = o.pre.card /\ o.exc = "ValueError")
   /\ (ClearlyValid(x) => o.out = "ok" /\ o.post.card = Meaning(x))
   /\ (ClearlyInvalid(x) => o.out = "raised")
   /\ CardNF(o.post.card)
Outside(c, n) == (c[1] # N /\ n < c[1]) \/ (c[2] # N /\ n > c[2])
\* warn: what a new validation reports; rwarn: what report() of a Validation object made before the step reports
\* (both are texts: "yes", "no", or what went wrong - "raised:..", "wrong-rank", "duplicate", "twin:..", "linked:..")
YesNo(b) == IF b THEN "yes" ELSE "no"
WarnOK(s) == s.warn = YesNo(Outside(s.card, s.count)) /\ s.rwarn = YesNo(Outside(s.card, s.count))
FreeEdit(o) == o.op.name \in {"add", "remove"} =>
                  /\ o.out = "ok" /\ o.post.card = o.pre.card
                  /\ o.post.count = (IF o.op.name = "add" THEN o.pre.count + 1 ELSE o.pre.count - 1)
\* sibs: the siblings saved along (an earlier one with cardinalities of its own, later ones without) kept theirs too
Persisted(o) == o.op.name = "saveload" => o.out = "ok" /\ o.post.card = o.pre.card /\ o.post.count = o.pre.count /\ o.post.sibs
====
