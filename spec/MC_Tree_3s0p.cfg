SPECIFICATION Spec
CONSTANTS DocIds = {"d1"}
 SecIds = {"s1","s2","s3"}
 PropIds = {}
 PoolIds = {"n1"}
 OtherIds = {"j1"}
 Names = {"a","b"}
 IdNames = FALSE
INVARIANT InvWF
INVARIANT InvUniqueSib
INVARIANT InvNamesOK
PROPERTY StepAtomic
VIEW View
ACTION_CONSTRAINT Emit
CHECK_DEADLOCK FALSE
