---- MODULE OdmlWorld ----
(***************************************************************************)
(* The abstract odML world and the CONTRACT predicates of C03, C04, C06.   *)
(*                                                                         *)
(* A world `st` is a record of functions over object handles (strings).    *)
(* Every map is defined on every handle, so that the same operators work   *)
(* on model states and on observations of the real library deserialised    *)
(* from JSON:                                                              *)
(*   kind[x]  \in {"doc","sec","prop","unborn","other"}  ("other": an      *)
(*            object that is not an odML object, e.g. a string)             *)
(*   kids[x]  Seq(handle)  child Sections of x  (<<>> for a Property)      *)
(*   plist[x] Seq(handle)  Properties of x      (<<>> unless a Section)    *)
(*   par[x]   handle | "none"        what x.parent reports                 *)
(*   name[x]  name token ("-" for a Document, "#x" when name = id of x,    *)
(*            "empty" when the library reports None or '')                 *)
(* Observations additionally carry docof[x] (what x.document reports:      *)
(* handle | "none" | "hang").                                              *)
(***************************************************************************)
EXTENDS Naturals, Sequences, FiniteSets, TLC

NONE == "none"
Objs(st)  == {x \in DOMAIN st.kind : st.kind[x] # "unborn"}
Docs(st)  == {x \in DOMAIN st.kind : st.kind[x] = "doc"}
Secs(st)  == {x \in DOMAIN st.kind : st.kind[x] = "sec"}
Props(st) == {x \in DOMAIN st.kind : st.kind[x] = "prop"}
Conts(st) == Docs(st) \cup Secs(st)
Kids(st)  == Secs(st) \cup Props(st)            \* objects that can have a parent

SeqRange(s) == {s[i] : i \in DOMAIN s}
Count(x, s) == Cardinality({i \in DOMAIN s : s[i] = x})
NoDup(s) == \A i, j \in DOMAIN s : i # j => s[i] # s[j]

\* the child list of container c in which objects of the kind of x live
ListOf(st, c, x) == IF st.kind[x] = "sec" THEN st.kids[c]
                    ELSE IF st.kind[x] = "prop" THEN st.plist[c] ELSE <<>>

RECURSIVE AncB(_,_,_)
AncB(st, x, n) == IF n = 0 \/ x \notin DOMAIN st.par THEN {}
                  ELSE IF st.par[x] = NONE \/ st.par[x] \notin DOMAIN st.kind THEN {}
                  ELSE {st.par[x]} \cup AncB(st, st.par[x], n - 1)
Anc(st, x) == AncB(st, x, Cardinality(DOMAIN st.kind) + 1)
InSubtree(st, y, x) == y = x \/ x \in Anc(st, y)      \* y lies in the subtree rooted at x

RECURSIVE TopB(_,_,_)
TopB(st, x, n) == IF n = 0 THEN x
                  ELSE IF st.par[x] = NONE \/ st.par[x] \notin DOMAIN st.kind THEN x
                  ELSE TopB(st, st.par[x], n - 1)
Top(st, x) == TopB(st, x, Cardinality(DOMAIN st.kind) + 1)
RootDoc(st, x) == IF st.kind[Top(st, x)] = "doc" THEN Top(st, x) ELSE NONE

(***************************************************************************)
(* C03 - a document is always a well-formed tree                           *)
(***************************************************************************)
NoDupLists(st) == \A c \in Objs(st) : NoDup(st.kids[c]) /\ NoDup(st.plist[c])
ListedKinds(st) ==
  \A c \in Objs(st) :
     /\ \A i \in DOMAIN st.kids[c]  : st.kids[c][i]  \in Secs(st)
     /\ \A i \in DOMAIN st.plist[c] : st.plist[c][i] \in Props(st)
     /\ (st.kind[c] = "prop" => st.kids[c] = <<>> /\ st.plist[c] = <<>>)
     /\ (st.kind[c] = "doc" => st.plist[c] = <<>>)
ChildReportsParent(st) ==
  \A c \in Objs(st) :
     /\ \A i \in DOMAIN st.kids[c]  : st.par[st.kids[c][i]] = c
     /\ \A i \in DOMAIN st.plist[c] : st.par[st.plist[c][i]] = c
ParentListsChild(st) ==
  \A x \in Kids(st) : st.par[x] # NONE =>
     /\ st.par[x] \in Objs(st)
     /\ Count(x, ListOf(st, st.par[x], x)) = 1
Acyclic(st) == \A x \in Secs(st) : x \notin Anc(st, x)
WFStruct(st) == /\ NoDupLists(st) /\ ListedKinds(st) /\ ChildReportsParent(st)
                /\ ParentListsChild(st) /\ Acyclic(st)
\* what .document reports: only evaluated on observations (which carry docof)
DocOK(st) == "docof" \in DOMAIN st =>
                \A x \in Objs(st) : st.docof[x] = (IF st.kind[x] = "doc" THEN x ELSE RootDoc(st, x))
WF(st) == WFStruct(st) /\ DocOK(st)

(***************************************************************************)
(* C04 - sibling names unique, names never empty                           *)
(***************************************************************************)
UniqueIn(st, s) == \A i, j \in DOMAIN s : i # j => st.name[s[i]] # st.name[s[j]]
UniqueSiblings(st) == \A c \in Objs(st) : UniqueIn(st, st.kids[c]) /\ UniqueIn(st, st.plist[c])
NamesOK(st) == \A x \in Kids(st) : st.name[x] # "empty"

(***************************************************************************)
(* C06 - a refused operation changes nothing                               *)
(***************************************************************************)
Atomic(pre, out, post) == out = "raised" => post = pre

\* the part of an observed world the reference model predicts
Core(st) == [kind |-> st.kind, kids |-> st.kids, plist |-> st.plist, par |-> st.par, name |-> st.name]
====
