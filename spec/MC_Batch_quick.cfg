SPECIFICATION Spec
CONSTANTS MaxFiles = 2
ACTION_CONSTRAINT Emit
CHECK_DEADLOCK FALSE
