SPECIFICATION Spec
CONSTANTS DocIds = {"d1"}
 SecIds = {"s1","s2"}
 PropIds = {"p1","p2"}
 PoolIds = {}
 OtherIds = {}
 Names = {"a"}
 IdNames = TRUE
INVARIANT InvWF
INVARIANT InvUniqueSib
INVARIANT InvNamesOK
PROPERTY StepAtomic
VIEW View
ACTION_CONSTRAINT Emit
CHECK_DEADLOCK FALSE
