---- MODULE OdmlOutline ----
(***************************************************************************)
(* Beyond the listed properties (id X03): the outline pprint prints.       *)
(* Section.pprint(indent, max_depth) of Section x at depth d prints        *)
(*    one line for x                     (d * indent leading blanks)       *)
(*    one line per Property of x, in order  ((d + 2) * indent blanks, "|-")*)
(*    and, if max_depth = -1 or d < max_depth, the outline of every        *)
(*    sub-Section at depth d + 1, in order; if d = max_depth, for every    *)
(*    sub-Section one line ((d + 1) * indent blanks) followed by a "[...]" *)
(*    line.                                                                *)
(* Document.pprint prints a header line and the outline of every top-level *)
(* Section at depth 0 when max_depth allows.  An entry is                  *)
(*    [k |-> "sec" | "prop" | "more", n |-> name, sp |-> leading blanks]   *)
(* ("more" entries carry the name "-" and their blanks are not compared).  *)
(***************************************************************************)
EXTENDS OdmlWorld
E(k, n, sp) == [k |-> k, n |-> n, sp |-> sp]
RECURSIVE SecOutline(_, _, _, _, _, _)
RECURSIVE SubOutlines(_, _, _, _, _, _, _)
PropLines(st, x, indent, d) == [i \in DOMAIN st.plist[x] |-> E("prop", st.name[st.plist[x][i]], (d + 2) * indent)]
Stubs(st, x, indent, d) ==
   LET RECURSIVE S(_)
       S(i) == IF i > Len(st.kids[x]) THEN <<>>
               ELSE <<E("sec", st.name[st.kids[x][i]], (d + 1) * indent), E("more", "-", 0)>> \o S(i + 1)
   IN S(1)
SubOutlines(st, x, indent, maxd, d, i, fuel) ==
   IF i > Len(st.kids[x]) \/ fuel = 0 THEN <<>>
   ELSE SecOutline(st, st.kids[x][i], indent, maxd, d + 1, fuel - 1) \o SubOutlines(st, x, indent, maxd, d, i + 1, fuel)
SecOutline(st, x, indent, maxd, d, fuel) ==
   <<E("sec", st.name[x], d * indent)>> \o PropLines(st, x, indent, d) \o
   (IF maxd < 0 \/ d < maxd THEN SubOutlines(st, x, indent, maxd, d, 1, fuel)
    ELSE IF d = maxd THEN Stubs(st, x, indent, d) ELSE <<>>)
Outline(st, x, indent, maxd) == SecOutline(st, x, indent, maxd, 0, Cardinality(DOMAIN st.kind) + 1)
\* entries compared without the blanks of "more" lines
Norm(s) == [i \in DOMAIN s |-> IF s[i].k = "more" THEN E("more", "-", 0) ELSE s[i]]
\* o = [st, x, indent, maxd, lines (parsed entries), out]
OutlineOK(o) == o.out = "ok" /\ Norm(o.lines) = Norm(Outline(o.st, o.x, o.indent, o.maxd))
====
