---- MODULE OdmlValidation ----
(***************************************************************************)
(* C08 - validation reports exactly the issues the documented rules        *)
(* prescribe.  The rules of doc/advanced_features.rst transcribed as       *)
(* Violated(w, k, x) over a "validation world" w (a world record of        *)
(* OdmlWorld plus, per object x):                                          *)
(*   type[x]      Section type text, "none" when None/empty                *)
(*   nameisid[x]  the name equals the id                                   *)
(*   noname[x]    the name is None/empty                                   *)
(*   id[x]        id token                                                 *)
(*   dep[x], depval[x]   dependency (name) and dependency value text       *)
(*   valtexts[x]  the text of each stored value                            *)
(*   dtypeok[x]   every stored value converts to the dtype / has its arity *)
(*   card[x]      [sections, properties, values] cardinalities <<min,max>> *)
(*                with 99 for None (OdmlCardOps)                           *)
(* and the CONTRACT IssuesOK on the observed issue set                     *)
(*   obs = set of [x, k, rank]  (k: the numeric IssueID).                  *)
(***************************************************************************)
EXTENDS OdmlWorld
N == 99
Errors == {101, 200, 201, 202, 203}
Warnings == {102, 300, 401, 402, 500, 501, 502}
Judged == Errors \cup Warnings
RankOf(k) == IF k \in Errors THEN "error" ELSE "warning"
Outside(c, n) == (c[1] # N /\ n < c[1]) \/ (c[2] # N /\ n > c[2])

\* objects a validation of root visits
Scope(w, root) == IF w.kind[root] = "prop" THEN {root}
                  ELSE {root} \cup {y \in Secs(w) \cup Props(w) : root \in Anc(w, y)}
SibProps(w, p) == IF w.par[p] = NONE THEN {} ELSE SeqRange(w.plist[w.par[p]]) \ {p}
DepTargets(w, p) == {q \in SibProps(w, p) : w.name[q] = w.dep[p]}

\* ---- rules that concern one object ----
Violated(w, k, x) ==
   CASE k = 101 -> (w.kind[x] \in {"sec", "prop"} /\ w.noname[x]) \/ (w.kind[x] = "sec" /\ w.type[x] = "none")
     [] k = 102 -> w.kind[x] = "sec" /\ w.type[x] = "n.s."
     [] k = 300 -> w.kind[x] \in {"sec", "prop"} /\ w.nameisid[x]
     [] k = 402 -> w.kind[x] = "prop" /\ ~w.dtypeok[x]
     [] k = 500 -> w.kind[x] = "sec" /\ Outside(w.card[x][2], Len(w.plist[x]))
     [] k = 501 -> w.kind[x] = "sec" /\ Outside(w.card[x][1], Len(w.kids[x]))
     [] k = 502 -> w.kind[x] = "prop" /\ Outside(w.card[x][3], Len(w.valtexts[x]))
     [] OTHER -> FALSE
\* rule 401 has a clear-yes, a clear-no and a grey region
DepApplies(w, p) == w.kind[p] = "prop" /\ w.par[p] # NONE /\ w.dep[p] # "none"
DepClearlyViolated(w, p) == DepApplies(w, p) /\ w.dep[p] # w.name[p] /\
     (DepTargets(w, p) = {} \/ \A q \in DepTargets(w, p) : w.depval[p] \notin SeqRange(w.valtexts[q]))
DepClearlySatisfied(w, p) == ~DepApplies(w, p) \/ (w.dep[p] # w.name[p] /\
     (\E q \in DepTargets(w, p) : w.valtexts[q] # <<>> /\ w.valtexts[q][1] = w.depval[p]))
\* (a Property naming itself as dependency is left unspecified)

\* ---- duplicate rules concern groups ----
IdGroup(w, root, x) == {y \in Scope(w, root) : w.id[y] = w.id[x]}
DupId(w, root, x) == Cardinality(IdGroup(w, root, x)) > 1
SibSecs(w, s) == IF w.par[s] = NONE THEN {s} ELSE SeqRange(w.kids[w.par[s]])
NameTypeGroup(w, s) == {y \in SibSecs(w, s) : w.name[y] = w.name[s] /\ w.type[y] = w.type[s]}
PropNameGroup(w, p) == IF w.par[p] = NONE THEN {p} ELSE {y \in SeqRange(w.plist[w.par[p]]) : w.name[y] = w.name[p]}

Reported(obs, k, x) == \E e \in obs : e.x = x /\ e.k = k
\* obs: observed issues of a validation of root
RanksOK(w, root, obs) == \A e \in obs : e.k \in Judged => e.rank = RankOf(e.k)
SingleKinds == {101, 102, 300, 402, 500, 501, 502}
SingleMismatch(w, root, obs) == {k \in SingleKinds : \E x \in Scope(w, root) : Reported(obs, k, x) # Violated(w, k, x)}
SingleRulesOK(w, root, obs) == SingleMismatch(w, root, obs) = {}
NoStrayIssues(w, root, obs) == \A e \in obs : e.k \in Judged => e.x \in Scope(w, root)
DepOK(w, root, obs) == \A p \in Scope(w, root) :
      (DepClearlyViolated(w, p) => Reported(obs, 401, p)) /\ (DepClearlySatisfied(w, p) => ~Reported(obs, 401, p))
DupIdsOK(w, root, obs) == LET S == Scope(w, root) IN
   /\ \A x \in S : (Reported(obs, 200, x) \/ Reported(obs, 201, x)) => DupId(w, root, x)
   /\ (w.kind[root] = "doc" => \A x \in S : DupId(w, root, x) => \E y \in IdGroup(w, root, x) : Reported(obs, 200, y) \/ Reported(obs, 201, y))
DupNamesOK(w, root, obs) == LET S == Scope(w, root) IN
   /\ \A x \in S : Reported(obs, 202, x) => w.kind[x] = "sec" /\ Cardinality(NameTypeGroup(w, x)) > 1
   /\ \A x \in S : Reported(obs, 203, x) => w.kind[x] = "prop" /\ Cardinality(PropNameGroup(w, x)) > 1
   /\ \A x \in S : (w.kind[x] = "sec" /\ w.par[x] # NONE /\ w.par[x] \in S /\ Cardinality(NameTypeGroup(w, x)) > 1) =>
                        \E y \in NameTypeGroup(w, x) : Reported(obs, 202, y)
   /\ \A x \in S : (w.kind[x] = "prop" /\ w.par[x] # NONE /\ w.par[x] \in S /\ Cardinality(PropNameGroup(w, x)) > 1) =>
                        \E y \in PropNameGroup(w, x) : Reported(obs, 203, y)
IssuesOK(w, root, obs) == /\ RanksOK(w, root, obs) /\ SingleRulesOK(w, root, obs) /\ NoStrayIssues(w, root, obs)
                          /\ DepOK(w, root, obs) /\ DupIdsOK(w, root, obs) /\ DupNamesOK(w, root, obs)
====
