---- MODULE JudgeLinks ----
(* Judge for C12 observations (and C03/C04 on every world finalize/clean produce). *)
EXTENDS OdmlLinks, Json, IOUtils
Obs == ndJsonDeserialize(IOEnv.OBS_FILE)
VARIABLE l
LinkSet(o) == SeqRange(o.links)
Shared(o) == IF \E e \in LinkSet(o) : SharesNames(o.ref, e.L, e.T) THEN "shared-child-names" ELSE "other-names"
Forms(o) == {e.form : e \in LinkSet(o)}
Via(o) == IF o.inc THEN "include" ELSE "link"
SigOf(o) == IF o.t = "refused_ref" THEN <<o.t, Via(o), o.state, o.out, o.exc>>
            ELSE <<o.t, IF o.cycle = 1 THEN "first-cycle" ELSE "second-cycle", Shared(o), Forms(o), o.out, o.exc, Via(o)>>
\* C06: assigning a reference that cannot be resolved raises and leaves everything (also which
\* Sections are merged) as it was
RefusedRefAtomic(o) == o.out = "raised" => (o.post = o.pre /\ o.merged_post = o.merged_pre)
Say(tag, prop, clause, o) == PrintT(ToJson(<<tag, prop, clause, o.k, SigOf(o)>>))
Chk(P, prop, clause, o) == IF P THEN TRUE ELSE Say("VIOL", prop, clause, o)
Check(i) == LET o == Obs[i] IN
   /\ Chk(o.t = "finalize" => FinalizePost(o), "C12", "FinalizePost", o)
   /\ Chk(o.t = "clean" => RestorePost(o), "C12", "RestorePost", o)
   /\ Chk(o.t = "clean" => LinkStillDesignates(o), "C12", "LinkStillDesignatesTarget", o)
   /\ IF o.t = "clean" /\ ~LinkerAttrsRestored(o)
      THEN PrintT(ToJson(<<"VIOL", "C12", "LinkerAttrsRestored", o.k,
                           <<IF FilledFromTarget(o) THEN "unset-attribute-filled-from-target" ELSE "changed-otherwise", Shared(o)>> >>))
      ELSE TRUE
   /\ Chk(o.t = "clean" => o.out = "ok", "C12", "CleanNeverFails", o)
   /\ Chk(o.t = "save" /\ Shared(o) = "other-names" => SavedPost(o), "C12", "SavedAfterClean", o)
   /\ Chk(o.t = "refused_ref" => RefusedRefAtomic(o), "C06", "Atomic", o)
   /\ (IF o.t = "refused_ref" /\ o.out = "ok" THEN Say("DIVERGENCE", "-", "-", o) ELSE TRUE)
   /\ Chk(WFStruct(o.pre) => WFStruct(o.post), "C03", "WF", o)
   /\ Chk(UniqueSiblings(o.pre) => UniqueSiblings(o.post), "C04", "UniqueSiblings", o)
JInit == l = 1
JNext == l <= Len(Obs) /\ (Check(l) = TRUE) /\ l' = l + 1
JSpec == JInit /\ [][JNext]_l
Done == IF TLCGet("stats").diameter - 1 = Len(Obs) THEN TRUE
        ELSE PrintT(ToJson(<<"INCOMPLETE", TLCGet("stats").diameter - 1, Len(Obs)>>)) /\ FALSE
====
