---- MODULE OdmlTreeOps ----
(***************************************************************************)
(* REFERENCE model of the structural editing API of python-odml            *)
(* (C03, C04, structural part of C06).  One action per public call; each   *)
(* has a success and a refusal outcome.  `Post(w, op)` is the set of       *)
(* [out, st] pairs the reference allows for operation `op` in world `w`.   *)
(*                                                                         *)
(*   append(c,x)          c.append(x)                                      *)
(*   insert(c,i,x)        c.insert(i, x)                                   *)
(*   extend2(c,x,y)       c.extend([x, y])                                 *)
(*   remove(c,x)          c.remove(x)                                      *)
(*   set_parent(x,c)      x.parent = c        (c may be "none")            *)
(*   setitem(c,i,x)       c.sections[i] = x / c.properties[i] = x          *)
(*   reorder(x,i)         x.reorder(i)                                     *)
(*   rename(x,n)          x.name = n          (n = "none": None / '')      *)
(*   new_sec(h,n,c,card)  h = Section(name=n, parent=c, sec_cardinality=.) *)
(*   new_prop(h,n,c,card) h = Property(name=n, parent=c, val_cardinality=.)*)
(*   create_sec(h,c,n)    h = c.create_section(n)                          *)
(*   create_prop(h,c,n)   h = c.create_property(n)                         *)
(*   create_prop_badvals(h,c,n)  the same with values the library refuses  *)
(*   new_id(x,y)          x.new_id() (y = "none") / x.new_id(y.id): the id *)
(*                        changes, nothing else - an unnamed object keeps  *)
(*                        the name it has (the id it was born with)        *)
(***************************************************************************)
EXTENDS OdmlWorld, Integers

\* ---- helpers producing new worlds ----
Without(s, x) == SelectSeq(s, LAMBDA y : y # x)
InsertAt(s, i, x) == SubSeq(s, 1, i) \o <<x>> \o SubSeq(s, i + 1, Len(s))     \* i in 0..Len(s)
Min(a, b) == IF a < b THEN a ELSE b
\* position an index of the list-insert kind designates in a list of n elements (negative: from the end; clamped)
Pos(i, n) == IF i >= 0 THEN Min(i, n) ELSE (IF n + i > 0 THEN n + i ELSE 0)
Detach(w, x) ==
   IF w.par[x] = NONE THEN w
   ELSE LET c == w.par[x] IN
        IF w.kind[x] = "sec"
        THEN [w EXCEPT !.kids[c] = Without(@, x), !.par[x] = NONE]
        ELSE [w EXCEPT !.plist[c] = Without(@, x), !.par[x] = NONE]
AttachAt(w, c, i, x) ==
   IF w.kind[x] = "sec"
   THEN [w EXCEPT !.kids[c] = InsertAt(@, i, x), !.par[x] = c]
   ELSE [w EXCEPT !.plist[c] = InsertAt(@, i, x), !.par[x] = c]
Accepts(w, c, x) == \/ (w.kind[x] = "sec" /\ w.kind[c] \in {"doc","sec"})
                    \/ (w.kind[x] = "prop" /\ w.kind[c] = "sec")
NameClash(w, c, x, n) == \E y \in SeqRange(ListOf(w, c, x)) : y # x /\ w.name[y] = n
Clash(w, c, x) == NameClash(w, c, x, w.name[x])
WouldCycle(w, c, x) == w.kind[x] = "sec" /\ InSubtree(w, c, x)
LenOf(w, c, x) == Len(ListOf(w, c, x))
Refuse(w) == {[out |-> "raised", st |-> w]}
Ok(w) == {[out |-> "ok", st |-> w]}

\* attach-like operations: the reference refuses on wrong kind, name clash, cycle and when x
\* is already a child of c (its own name is taken); an x attached elsewhere is MOVED (the
\* contract accepts a refusal as well).
AttachPost(w, c, i, x) ==
   IF ~Accepts(w, c, x) \/ Clash(w, c, x) \/ WouldCycle(w, c, x) \/ w.par[x] = c
   THEN Refuse(w)
   ELSE LET w1 == Detach(w, x) IN Ok(AttachAt(w1, c, Min(i, LenOf(w1, c, x)), x))
IndexOf(s, y) == CHOOSE i \in DOMAIN s : s[i] = y

Born(w, h, k, n) == [w EXCEPT !.kind[h] = k, !.name[h] = n]
NameTok(n, x) == IF n \in {NONE, "empty"} THEN "#" \o x ELSE n    \* "#x": the name is the id of x

CtorPost(w, h, k, n, c, card) ==
   LET w1 == Born(w, h, k, NameTok(n, h)) IN
   IF card = "bad" THEN Refuse(w)
   ELSE IF c = NONE THEN Ok(w1)
   ELSE IF ~Accepts(w1, c, h) \/ Clash(w1, c, h) THEN Refuse(w)
   ELSE Ok(AttachAt(w1, c, LenOf(w1, c, h), h))

Post(w, op) ==
  CASE op.name = "append" -> AttachPost(w, op.c, LenOf(w, op.c, op.x), op.x)
    [] op.name = "insert" -> AttachPost(w, op.c, op.i, op.x)
    [] op.name = "extend2" ->
         LET a == CHOOSE r \in AttachPost(w, op.c, LenOf(w, op.c, op.x), op.x) : TRUE IN
         IF a.out = "raised" \/ op.x = op.y THEN Refuse(w)
         ELSE LET b == CHOOSE r \in AttachPost(a.st, op.c, LenOf(a.st, op.c, op.y), op.y) : TRUE IN
              IF b.out = "raised" THEN Refuse(w) ELSE {b}
    [] op.name = "remove" ->
         IF w.kind[op.x] = "doc" \/ w.par[op.x] # op.c THEN Refuse(w) ELSE Ok(Detach(w, op.x))
    [] op.name = "set_parent" ->
         IF w.kind[op.x] = "doc" THEN Refuse(w)
         ELSE IF op.c = NONE THEN Ok(Detach(w, op.x))
         ELSE IF ~Accepts(w, op.c, op.x) \/ WouldCycle(w, op.c, op.x) THEN Refuse(w)
         ELSE IF w.par[op.x] = op.c
              THEN Ok(w) \cup Ok(AttachAt(Detach(w, op.x), op.c, LenOf(Detach(w, op.x), op.c, op.x), op.x))
         ELSE IF Clash(w, op.c, op.x) THEN Refuse(w)
         ELSE LET w1 == Detach(w, op.x) IN Ok(AttachAt(w1, op.c, LenOf(w1, op.c, op.x), op.x))
    [] op.name = "setitem" ->      \* 1-based index into the list of c that holds objects like x
         IF ~Accepts(w, op.c, op.x) THEN Refuse(w)
         ELSE LET lst == ListOf(w, op.c, op.x) IN
              IF op.i > Len(lst) THEN Refuse(w)
              ELSE LET y == lst[op.i] IN
                   IF y = op.x THEN Ok(w)
                   ELSE IF \E z \in SeqRange(lst) : z \notin {y, op.x} /\ w.name[z] = w.name[op.x] THEN Refuse(w)
                   ELSE IF WouldCycle(w, op.c, op.x) THEN Refuse(w)
                   ELSE LET w1 == Detach(w, op.x) IN
                        LET j == IndexOf(ListOf(w1, op.c, op.x), y) IN
                        IF w1.kind[op.x] = "sec"
                        THEN Ok([w1 EXCEPT !.kids[op.c][j] = op.x, !.par[y] = NONE, !.par[op.x] = op.c])
                        ELSE Ok([w1 EXCEPT !.plist[op.c][j] = op.x, !.par[y] = NONE, !.par[op.x] = op.c])
    [] op.name = "reorder" ->
         IF w.kind[op.x] = "doc" \/ w.par[op.x] = NONE THEN Refuse(w)
         ELSE LET c == w.par[op.x] IN LET w1 == Detach(w, op.x) IN
              Ok(AttachAt(w1, c, Pos(op.i, LenOf(w1, c, op.x)), op.x))
    [] op.name = "rename" ->
         IF w.kind[op.x] = "doc" THEN Refuse(w)
         \* clearing the name makes the current id the name: token "#x" unless the observation says which id x
         \* carries by now (op.idn, histories with new_id); it goes through the sibling check like any other name
         ELSE LET nn == IF op.n \in {NONE, "empty"} THEN (IF "idn" \in DOMAIN op THEN op.idn ELSE NameTok(NONE, op.x)) ELSE op.n IN
              IF nn = w.name[op.x] THEN Ok(w)
              ELSE IF w.par[op.x] # NONE /\ NameClash(w, w.par[op.x], op.x, nn) THEN Refuse(w)
              ELSE Ok([w EXCEPT !.name[op.x] = nn])
    [] op.name = "new_sec"  -> CtorPost(w, op.h, "sec", op.n, op.c, op.card)
    [] op.name = "new_prop" -> CtorPost(w, op.h, "prop", op.n, op.c, op.card)
    [] op.name = "create_sec"  -> CtorPost(w, op.h, "sec", op.n, op.c, "none")
    [] op.name = "create_prop" -> CtorPost(w, op.h, "prop", op.n, op.c, "none")
    [] op.name = "new_id" -> Ok(w)
    [] op.name = "create_prop_badvals" -> Refuse(w)        \* values that cannot be stored (mixed types): no Property appears
    [] OTHER -> {}

(***************************************************************************)
(* Classification of an operation relative to its pre-state: used by the   *)
(* judge to name what failed (known findings are matched on it).           *)
(***************************************************************************)
AttachSig(w, c, x) ==
   IF c = NONE THEN "to-none"
   ELSE IF ~Accepts(w, c, x) THEN "wrong-kind"
   ELSE IF WouldCycle(w, c, x) THEN "target-in-own-subtree"
   ELSE IF w.par[x] = c THEN "already-child"
   ELSE IF w.par[x] # NONE THEN (IF Clash(w, c, x) THEN "attached-elsewhere+clash" ELSE "attached-elsewhere")
   ELSE IF Clash(w, c, x) THEN "clash"
   ELSE "plain"
Sig(op, w) ==
   IF op.name \in {"append", "insert", "set_parent", "setitem"} THEN <<op.name, AttachSig(w, op.c, op.x)>>
   ELSE IF op.name = "extend2" THEN
        <<op.name, AttachSig(w, op.c, op.x),
          IF op.x = op.y THEN "same-object-twice"
          ELSE IF w.kind[op.x] = w.kind[op.y] /\ w.name[op.x] = w.name[op.y] THEN "same-name-twice"
          ELSE AttachSig(w, op.c, op.y)>>
   ELSE IF op.name \in {"new_sec", "new_prop"} THEN
        <<op.name, IF op.c = NONE THEN "detached" ELSE "with-parent", "card-" \o op.card>>
   ELSE <<op.name>>
====
