---- MODULE OdmlIds ----
(* state machine over OdmlIdsOps: one object of each kind, constructor and new_id calls *)
EXTENDS OdmlIdsOps
VARIABLES idv, last
\* idv[k]: id token of the current object of kind k ("absent" before construction)
Init == idv = [k \in Kinds |-> "absent"] /\ last = [op |-> "init"]

\* named: whether the constructor is given a name (an unnamed Section / Property is named by its id;
\* a Document has no name)
Next == \E op \in {"ctor", "new_id"}, k \in Kinds, in \in Inputs, nm \in BOOLEAN :
          /\ (op = "new_id" => idv[k] # "absent")
          /\ (k = "doc" \/ op = "new_id" => nm)
          /\ LET r == RefPost(op, k, in, idv[k]) IN
               /\ idv' = [idv EXCEPT ![k] = IF r.id = "fresh" THEN "f" ELSE r.id]
               /\ last' = [op |-> op, kind |-> k, in |-> in, out |-> r.out, named |-> nm]
Spec == Init /\ [][Next]_<<idv, last>>
View == idv
InvCanon == \A k \in Kinds : idv[k] # "bad"
Emit == PrintT(ToJson([pre |-> idv, op |-> last'.op, kind |-> last'.kind, in |-> last'.in, named |-> last'.named]))

====
