---- MODULE OdmlRegistryOps ----
(* C19 contract predicates (see OdmlRegistry for the reference machine). *)
EXTENDS Naturals, Sequences, FiniteSets, TLC, Json
(***************************************************************************)
(* CONTRACT on one observed step                                           *)
(*   o = [op, rules0, rules, worldpre, worldpost, issues, prev, prevworld, *)
(*        out, custom_expected]                                            *)
(* rules0: the class registry when the interpreter started; rules: after   *)
(* the step; issues: the reported issues as a sequence of [x, k, rank]     *)
(* (x a path; m the message text), worlds as opaque snapshots.                                 *)
(***************************************************************************)
Bag(s) == [e \in {s[i] : i \in DOMAIN s} |-> Cardinality({i \in DOMAIN s : s[i] = e})]
Validations == {"default_validate", "doc_validate", "section_validate", "property_validate", "rerun_last", "report_last"}
IsValidate(o) == o.op \in Validations \cup {"run_custom"}
RulesUnchanged(o) == o.rules = o.rules0
ObservesOnly(o) == IsValidate(o) => o.out = "ok" /\ o.worldpost = o.worldpre
\* prev: the issues the same kind of validation (same root; for rerun/report: the same instance) reported last time
Repeatable(o) == (o.op \in Validations \cup {"other_process"} /\ o.prevworld = o.worldpre) => Bag(o.issues) = Bag(o.prev)
\* rerun_same: a private validation run twice in a row on the unchanged objects reported the same issues; for clone_validate: an
\* edited copy of the document validated by Document.validate() and by a new Validation object reported the same issues
CustomRepeatable(o) == o.op \in {"run_custom", "clone_validate"} => o.rerun_same
CustomPrivate(o) == o.op \in Validations => \A i \in DOMAIN o.issues : o.issues[i].k # 701
\* custom_issues: the reported issues of kind 701 (the harness' own custom rule)
CustomApplied(o) == o.op = "run_custom" => Bag(o.custom_issues) = Bag(o.custom_expected)
====
