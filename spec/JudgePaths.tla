---- MODULE JudgePaths ----
(* Judge for C14: one record per tree, each carrying all observations made on it. *)
EXTENDS OdmlPaths, Json, IOUtils
Obs == ndJsonDeserialize(IOEnv.OBS_FILE)
VARIABLE l
Say(o, clause, sig) == PrintT(ToJson(<<"VIOL", "C14", clause, o.k, sig>>))
RelClass(st, a, b) == IF a = b THEN "self" ELSE IF b \in Anc(st, a) THEN "to-ancestor" ELSE IF a \in Anc(st, b) THEN "to-descendant" ELSE "to-other-branch"
C(o, ok, clause, s) == IF ok THEN TRUE ELSE Say(o, clause, s)
Check(i) == LET o == Obs[i] IN LET st == o.st IN
   /\ \A n \in DOMAIN o.paths : LET e == o.paths[n] IN C(o, PathOK(st, e), "PathOK", <<"get_path", st.kind[e.x]>>)
   /\ \A n \in DOMAIN o.lookups : LET e == o.lookups[n] IN C(o, LookupOK(st, e), "LookupOK", <<"lookup", st.kind[e.x], st.kind[e.start]>>)
   /\ \A n \in DOMAIN o.rels : LET e == o.rels[n] IN C(o, RelOK(st, e), "RelOK", <<"get_relative_path", RelClass(st, e.a, e.b)>>)
   /\ \A n \in DOMAIN o.iters : LET e == o.iters[n] IN C(o, IterOK(st, e), "IterOK",
            <<"iter", st.kind[e.start], IF e.depth < 0 THEN "unlimited" ELSE IF e.depth = 0 THEN "depth0" ELSE "depthN">>)
   /\ \A n \in DOMAIN o.finds : LET e == o.finds[n] IN C(o, FindOK(st, e), "FindOK", <<e.fn, st.kind[e.start]>>)
JInit == l = 1
JNext == l <= Len(Obs) /\ (Check(l) = TRUE) /\ l' = l + 1     \* "= TRUE": evaluate Check as one expression, not as nested actions
JSpec == JInit /\ [][JNext]_l
Done == IF TLCGet("stats").diameter - 1 = Len(Obs) THEN TRUE
        ELSE PrintT(ToJson(<<"INCOMPLETE", TLCGet("stats").diameter - 1, Len(Obs)>>)) /\ FALSE
====
