---- MODULE OdmlValidationGen ----
(***************************************************************************)
(* Generator of documents made invalid on purpose: from the valid base     *)
(*    d1 -+- s1 (a/t) -+- p1 (a) p2 (b)                                    *)
(*        |            +- s3 (a/t) --- p4 (a)                              *)
(*        +- s2 (b/t) --- p3 (a)                                           *)
(*        +- s4 (a/u)      (same name as s1, another type: valid)          *)
(* every sequence of at most MaxMut mutations: cleared / unspecified       *)
(* types, names equal to ids, shared ids (as keep_id clones produce),      *)
(* duplicate sibling names, dependencies naming an existing / a missing    *)
(* Property / a name that also belongs to a sub-Section, dependency values *)
(* matching the first / a later / no value, dependency targets with text / *)
(* int / no values, cardinalities met and unmet, values inconsistent with  *)
(* the dtype (also n-tuples with one- and two-digit n); validated from the document, a Section and a Property.       *)
(***************************************************************************)
EXTENDS Naturals, Sequences, FiniteSets, TLC, Json
CONSTANTS MaxMut
VARIABLES g, nmut
SecH == {"s1", "s2", "s3", "s4"}
PropH == {"p1", "p2", "p3", "p4"}
All == SecH \cup PropH
Base(x) == IF x \in SecH
           THEN [name |-> IF x = "s2" THEN "b" ELSE "a", type |-> IF x = "s4" THEN "u" ELSE "t", idof |-> x, scard |-> "none", pcard |-> "none"]
           ELSE [name |-> IF x = "p2" THEN "b" ELSE "a", idof |-> x, dep |-> IF x = "p2" THEN "a" ELSE "none",       \* p2 depends on p1, satisfied
                 depval |-> IF x = "p2" THEN "first" ELSE "none",
                 vals |-> "text", vcard |-> "none", dtypeok |-> TRUE]
Init == g = [x \in All |-> Base(x)] /\ nmut = 0
Mut(x) ==
   {[f |-> "name", v |-> n] : n \in {"a", "b", "#id"}} \cup
   {[f |-> "idof", v |-> y] : y \in (All \cup {"d1"}) \ {x}} \cup
   (IF x \in SecH THEN {[f |-> "type", v |-> t] : t \in {"none", "n.s.", "u", "s"}} \cup
                       {[f |-> c, v |-> v] : c \in {"scard", "pcard"}, v \in {"max1", "min1", "min3", "1to1", "1to2", "2to2"}}
    ELSE {[f |-> "dep", v |-> d] : d \in {"a", "b", "zz", "none"}} \cup
         {[f |-> "depval", v |-> d] : d \in {"first", "later", "part", "other"}} \cup
         {[f |-> "vals", v |-> d] : d \in {"ints", "empty", "one", "tup2", "tup12", "tup2bad", "tup12bad", "bools", "dates"}} \cup
         {[f |-> "vcard", v |-> v] : v \in {"max1", "min1", "min3", "1to1", "1to2", "2to2"}} \cup
         {[f |-> "dtypeok", v |-> FALSE]})
Next == /\ nmut < MaxMut /\ nmut' = nmut + 1
        /\ \E x \in All : \E m \in Mut(x) : g[x][m.f] # m.v /\ g' = [g EXCEPT ![x][m.f] = m.v]
Spec == Init /\ [][Next]_<<g, nmut>>
View == g
TypeOK == nmut <= MaxMut
Emit == PrintT(ToJson(g'))
====
