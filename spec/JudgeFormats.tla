---- MODULE JudgeFormats ----
(* Judge for document-level round trips (C01: XML, C02: JSON / YAML). *)
EXTENDS OdmlFormats, Json, IOUtils
Obs == ndJsonDeserialize(IOEnv.OBS_FILE)
VARIABLE l
P(o) == IF o.fmt = "XML" THEN "C01" ELSE "C02"
SigOf(o) == <<o.t, o.fmt, o.entry, o.mode, o.opt, o.out, o.exc>>
Say(tag, prop, clause, o) == PrintT(ToJson(<<tag, prop, clause, o.k, SigOf(o)>>))
Chk(Q, prop, clause, o) == IF Q THEN TRUE ELSE Say("VIOL", prop, clause, o)
\* classification of a lost round trip (for the known finding C01-single-bracketed-or-blank-value met inside a history):
\* o.exp_alt, if given, is the expected world with the values of every Property whose only value is bracketed / blank
\* text replaced by what was loaded; if the rest agrees, that is the only difference
Class(o) == IF "exp_alt" \in DOMAIN o /\ SameDoc([o EXCEPT !.exp = o.exp_alt]) THEN "only-single-bracketed-or-blank-values" ELSE "other"
Check(i) == LET o == Obs[i] IN
   /\ (IF o.t = "doc" /\ ~SameDoc(o)
       THEN PrintT(ToJson(<<"VIOL", P(o), "SaveLoadIsLossless", o.k, Append(SigOf(o), Class(o))>>)) ELSE TRUE)
   /\ Chk(o.t = "doc" => UncertaintyTyped(o), P(o), "UncertaintyKeepsItsType", o)
   /\ Chk(o.t = "foreign" => SameDoc(o), P(o), "ForeignFileLoadsToItsDocument", o)
   /\ Chk(o.t = "unrep" => ((o.out = "raised" /\ o.stage = "write") \/ SameDoc(o)), "C01", "UnrepresentableDocumentIsRefusedNotAltered", o)
   /\ Chk((o.t = "doc" /\ o.fmt = "XML" /\ o.out = "ok") => XmlVocabOK(o), "C01", "Only1.1VocabularyAndVersion", o)
   /\ Chk((o.t = "doc" /\ o.fmt = "XML" /\ o.mode = "strict" /\ o.out = "ok") => o.warnings = 0, "C01", "StrictReaderAcceptsWithoutWarning", o)
   /\ Chk((o.t = "doc" /\ o.fmt # "XML" /\ o.out = "ok") => DictVocabOK(o), "C02", "DictionaryLayout1.1", o)
JInit == l = 1
JNext == l <= Len(Obs) /\ (Check(l) = TRUE) /\ l' = l + 1
JSpec == JInit /\ [][JNext]_l
Done == IF TLCGet("stats").diameter - 1 = Len(Obs) THEN TRUE
        ELSE PrintT(ToJson(<<"INCOMPLETE", TLCGet("stats").diameter - 1, Len(Obs)>>)) /\ FALSE
====
