---- MODULE JudgeQuery ----
(* Judge for C20 observations. *)
EXTENDS OdmlQuery, Json, IOUtils
Obs == ndJsonDeserialize(IOEnv.OBS_FILE)
VARIABLE l
\* sequences of pairs / rows in the observation become sets
Norm(o) == [w |-> o.w,
            pairs |-> IF o.mode = "match" THEN SeqRange(o.pairs) ELSE FuzzyPairs(SeqRange(o.attrs), SeqRange(o.terms)),
            blocks |-> [i \in DOMAIN o.blocks |-> [pairs |-> SeqRange(o.blocks[i].pairs), rows |-> SeqRange(o.blocks[i].rows)]]]
Say(o, clause, sig) == PrintT(ToJson(<<"VIOL", "C20", clause, o.k, sig>>))
C(o, ok, clause, sig) == IF ok THEN TRUE ELSE Say(o, clause, sig)
Check(i) == LET o == Obs[i] IN LET n == Norm(o) IN
   /\ C(o, o.out = "ok", "QueryNeverFails", <<o.mode, o.way, o.exc>>)
   /\ (o.out # "ok" \/
        /\ C(o, BlocksExact(n), "ExactlyTheMatchingObjects", <<o.mode, o.way>>)
        /\ C(o, Extra(n) = {}, "NoCombinationWithoutHit", <<o.mode, o.way>>)
        /\ C(o, Missing(n) = {}, "EveryCombinationWithAHit", <<o.mode, o.way,
               IF \A P \in Missing(n) : CrossKindSameAttr(P) THEN "only-combinations-using-one-attribute-name-for-two-kinds" ELSE "other">>)
        /\ C(o, MostSpecificFirst(n) /\ NoDuplicates(n), "MostSpecificFirst", <<o.mode, o.way>>))
JInit == l = 1
JNext == l <= Len(Obs) /\ (Check(l) = TRUE) /\ l' = l + 1
JSpec == JInit /\ [][JNext]_l
Done == IF TLCGet("stats").diameter - 1 = Len(Obs) THEN TRUE
        ELSE PrintT(ToJson(<<"INCOMPLETE", TLCGet("stats").diameter - 1, Len(Obs)>>)) /\ FALSE
====
