---- MODULE JudgeIds ----
EXTENDS OdmlIdsOps, IOUtils
Obs == ndJsonDeserialize(IOEnv.OBS_FILE)
VARIABLE l
Say(tag, prop, clause, o) == PrintT(ToJson(<<tag, prop, clause, o.k, <<o.op, o.kind, o.in, IF o.named THEN "named" ELSE "unnamed">> >>))
Chk(P, prop, clause, o) == IF P THEN TRUE ELSE Say("VIOL", prop, clause, o)
Check(i) == LET o == Obs[i] IN
   /\ Chk(IdCanonical(o), "C04", "IdCanonical", o)
   /\ Chk(IdStepOK(o), "C04", "IdStep", o)
   /\ Chk(NameStepOK(o), "C04", "NamesOK", o)
   /\ Chk(o.out = "raised" => o.post = o.pre /\ o.postname = o.prename, "C06", "Atomic", o)
JInit == l = 1
JNext == l <= Len(Obs) /\ Check(l) /\ l' = l + 1
JSpec == JInit /\ [][JNext]_l
Done == IF TLCGet("stats").diameter - 1 = Len(Obs) THEN TRUE
        ELSE PrintT(ToJson(<<"INCOMPLETE", TLCGet("stats").diameter - 1, Len(Obs)>>)) /\ FALSE
====
