---- MODULE OdmlReader ----
(***************************************************************************)
(* C16 - readers are total: a document, or a ParserException - never       *)
(* anything else.  CONTRACT on one observed read                           *)
(*   o = [g (planted defects per object, "ok" if none), fmt, mode, entry,  *)
(*        outcome ("Document" | "ParserException" | "InvalidVersion-       *)
(*        Exception" | "other:<class>" | "hang"), warnings (count),        *)
(*        found[h] (the object is in the returned document), w (world of   *)
(*        the returned document)]                                          *)
(* A part is VALID iff no defect was planted in it or in one of its        *)
(* ancestors, and its name does not clash with an earlier valid sibling    *)
(* (dupname is planted on the later sibling); the lenient reader may keep  *)
(* more than the valid parts, never fewer.                                 *)
(***************************************************************************)
EXTENDS OdmlWorld
SecH == {"s1", "s2", "s3"}
PropH == {"p1", "p2", "p3", "p4"}
ParentOf == [s1 |-> "d1", s2 |-> "d1", s3 |-> "s1", p1 |-> "s1", p2 |-> "s1", p3 |-> "s2", p4 |-> "s3", d1 |-> "d1"]
RECURSIVE ChainOK(_, _, _, _)
\* variations the readers accept by design: element names are matched case-insensitively, stray text is ignored
\* (the XML reader; dictionary keys are matched exactly)
\* and the items of a value list may be surrounded by blanks ("[ 1 , 2 ]"); a list holding nothing but
\* layout whitespace ("[ \n ]", defect "blanklist") is a defect of that Property like an unparsable value
Layout == {"spacedlist"}
Tolerated(fmt) == Layout \cup (IF fmt = "XML" THEN {"case-tag", "case-child", "text-in-element"} ELSE {})
ChainOK(g, h, n, fmt) == IF h = "d1" \/ n = 0 THEN TRUE ELSE g[h] \in {"ok"} \cup Tolerated(fmt) /\ ChainOK(g, ParentOf[h], n - 1, fmt)
ValidPart(g, h, fmt) == ChainOK(g, h, 4, fmt)
AnyDefect(g) == \E x \in DOMAIN g : g[x] # "ok"
WellFormed(g) == g["file"] \notin {"truncate", "dropclose", "garbage", "empty"}
CurrentOdml(g) == g["file"] \notin {"wrongroot", "caseroot", "wrongversion", "noversion"}
\* (Total) a Document, or a ParserException (InvalidVersionException for another format version)
Total(o) == o.outcome \in {"Document", "ParserException", "InvalidVersionException"}
VersionClass(o) == (WellFormed(o.g) /\ o.g["file"] = "wrongversion") => o.outcome = "InvalidVersionException"
BrokenRefused(o) == (~WellFormed(o.g) \/ ~CurrentOdml(o.g)) => o.outcome # "Document"
\* (Lenient) well-formed input with an odML root of the current version never raises
LenientNeverRaises(o) == (o.mode = "lenient" /\ WellFormed(o.g) /\ CurrentOdml(o.g)) => o.outcome = "Document"
\* a duplicate name planted on s2 / p2 is only a problem while the earlier sibling still carries that name
NameDefects == {"noname", "emptyname", "repeat-name", "dupname", "noname-dupchild", "noname-badvalue", "case-child"}
Effective(g, x) == IF g[x] = "dupname" /\ ((x = "s2" /\ g["s1"] \in NameDefects) \/ (x = "p2" /\ g["p1"] \in NameDefects)) THEN "ok" ELSE g[x]
Problems(g, fmt) == {Effective(g, x) : x \in DOMAIN g} \ ({"ok"} \cup Tolerated(fmt))
NoWarningWithoutProblem(o) == (o.mode = "lenient" /\ o.outcome = "Document" /\ o.fmt = "XML" /\ o.warnings > 0) => AnyDefect(o.g)
ProblemIsWarned(o) == (o.mode = "lenient" /\ o.outcome = "Document" /\ o.fmt = "XML" /\ Problems(o.g, o.fmt) # {}) => o.warnings > 0
ValidPartsKept(o) == o.outcome = "Document" => \A h \in SecH \cup PropH : ValidPart(o.g, h, o.fmt) => o.found[h]
CleanIsAccepted(o) == ~AnyDefect(o.g) => (o.outcome = "Document" /\ o.warnings = 0)
ResultWellFormed(o) == o.outcome = "Document" => WF(o.w) /\ UniqueSiblings(o.w) /\ NamesOK(o.w)
====
