---- MODULE OdmlMergeGen ----
(***************************************************************************)
(* Generator of pairs of Section trees (destination D, source S) with      *)
(* controlled overlap: starting from two fully overlapping, compatible     *)
(* trees                                                                   *)
(*        X -+- Xpa (Property a)                                           *)
(*           +- Xpb (Property b)                                           *)
(*           +- Xs  (Section a, type t) --- Xspa (Property a)              *)
(* (X = D, S), every sequence of at most MaxMut mutations is explored:     *)
(* removal of an object, a different Section type or name, definitions /   *)
(* references / value origins that are equal, differ in case and           *)
(* whitespace only, or differ; other dtype, unit, uncertainty; value lists *)
(* that overlap, are disjoint, empty, unconvertible or convertible only in  *)
(* their first element; units that differ in case only.  A conflict can so  *)
(* sit at any depth and sibling position of either tree.                   *)
(***************************************************************************)
EXTENDS Naturals, Sequences, FiniteSets, TLC, Json
CONSTANTS MaxMut
VARIABLES g, nmut
Roots == {"D", "S"}
Secs == {"D", "Ds", "S", "Ss"}
Props == {"Dpa", "Dpb", "Dspa", "Spa", "Spb", "Sspa"}
All == Secs \cup Props
Base(x) == IF x \in Secs
           THEN [present |-> TRUE, name |-> "a", type |-> "t", definition |-> "X", reference |-> "none"]
           ELSE [present |-> TRUE, name |-> IF x \in {"Dpb", "Spb"} THEN "b" ELSE "a", dtype |-> "int",
                 vals |-> IF x \in {"Dpa", "Dpb", "Dspa"} THEN "v12" ELSE "v23",
                 unit |-> "mV", uncertainty |-> "none", definition |-> "X", reference |-> "none", value_origin |-> "none"]
Init == g = [x \in All |-> Base(x)] /\ nmut = 0
TextC == {"X", "Xv", "Y"}          \* Xv: X in another case / with other whitespace
Mut(x) ==
   (IF x \in Roots THEN {} ELSE {[f |-> "present", v |-> FALSE]}) \cup
   {[f |-> "definition", v |-> c] : c \in TextC \cup {"none"}} \cup
   (IF x \in Secs THEN {[f |-> "reference", v |-> c] : c \in TextC} ELSE {}) \cup
   (IF x \in {"Ds", "Ss"} THEN {[f |-> "type", v |-> "u"], [f |-> "name", v |-> "b"]} ELSE {}) \cup
   (IF x \in Props THEN {[f |-> "dtype", v |-> d] : d \in {"float", "string"}} \cup
                        {[f |-> "unit", v |-> u] : u \in {"mV", "kHz", "MV", "none"}} \cup
                        {[f |-> "uncertainty", v |-> u] : u \in {"0", "0.5", "2"}} \cup
                        {[f |-> "value_origin", v |-> c] : c \in TextC} \cup
                        {[f |-> "reference", v |-> c] : c \in {"X", "Y"}} \cup
                        {[f |-> "vals", v |-> c] : c \in {"v45", "text", "empty", "float", "mixed", "v01", "f12"}}
    ELSE {})
Next == /\ nmut < MaxMut
        /\ nmut' = nmut + 1
        /\ \E x \in All : \E m \in Mut(x) : g[x].present /\ g[x][m.f] # m.v /\ g' = [g EXCEPT ![x][m.f] = m.v]
Spec == Init /\ [][Next]_<<g, nmut>>
View == g
TypeOK == nmut <= MaxMut
Emit == PrintT(ToJson(g'))
EmitInit == TRUE
====
