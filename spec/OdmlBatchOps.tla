---- MODULE OdmlBatchOps ----
(***************************************************************************)
(* C17 - batch conversion tools never touch their inputs and isolate bad   *)
(* files.  A directory is a set of files [kind, ext, where]; a tool handles*)
(* one file at a time, in any order; there is NO abort action: a file that *)
(* cannot be converted is reported and the run goes on.                    *)
(* REFERENCE: Expected effect per tool and kind.  CONTRACT on one observed *)
(* run  o = [tool, recursive, outdir, files (seq of [kind, ext, where,     *)
(*           same, output, loads, reported]), out, created (seq of where   *)
(*           each created file went: "outdir" | "inputdir" | "elsewhere")] *)
(***************************************************************************)
EXTENDS Naturals, Sequences, FiniteSets, TLC, Json
V10 == {"v10xml", "v10xmlent", "v10json", "v10jsontab", "v10yaml"}        \* v10jsontab: JSON indented with tab characters; v10xmlent: XML using entities declared in its DOCTYPE
V11 == {"v11xml", "v11json", "v11yaml"}
Bad == {"empty", "text", "malformed", "foreign"}
ExtOf(k) == IF k \in {"v10xml", "v10xmlent", "v11xml"} THEN "xml" ELSE IF k \in {"v10json", "v10jsontab", "v11json"} THEN "json" ELSE "yaml"
FileKinds == {[kind |-> k, ext |-> ExtOf(k)] : k \in V10 \cup V11} \cup {[kind |-> k, ext |-> e] : k \in Bad, e \in {"xml", "json", "yaml"}}
Tools == {"odmlconvert", "odmltordf"}
\* the format converter works on directories of files of the one kind its target expects
FcTargets == {"v1_1", "odml", "xml", "pretty-xml", "n3", "turtle", "ttl", "ntriples", "nt", "nt11", "trig", "json-ld"}
Convertible(tool, k) == IF tool = "odmlconvert" THEN k \in V10
                        ELSE IF tool = "odmltordf" THEN k \in V10 \cup V11
                        ELSE IF tool = "v1_1" THEN k \in {"v10xml", "v10xmlent"} ELSE k = "v11xml"
Handled(f, recursive) == f.where = "top" \/ recursive
\* REFERENCE: what handling file f leaves behind
Expected(tool, f, recursive) ==
   IF ~Handled(f, recursive) THEN [output |-> FALSE, reported |-> FALSE]
   ELSE IF Convertible(tool, f.kind) THEN [output |-> TRUE, reported |-> TRUE]
   ELSE [output |-> FALSE, reported |-> TRUE]

\* ---- CONTRACT ----
InputsUntouched(o) == \A i \in DOMAIN o.files : o.files[i].same
OutputsContained(o) == \A i \in DOMAIN o.created : o.created[i] = "outdir"
NeverStops(o) == o.out = "ok"
IsCli(o) == o.tool \in Tools
EveryConvertibleHasOutput(o) == \A i \in DOMAIN o.files :
     (Handled(o.files[i], o.recursive) /\ Convertible(o.tool, o.files[i].kind)) => (o.files[i].output /\ o.files[i].loads)
EveryBadFileReported(o) == \A i \in DOMAIN o.files :
     (Handled(o.files[i], o.recursive) /\ o.files[i].kind \in Bad) => o.files[i].reported
NothingForTheRest(o) == \A i \in DOMAIN o.files :
     ~(Handled(o.files[i], o.recursive) /\ Convertible(o.tool, o.files[i].kind)) => ~o.files[i].output
====
