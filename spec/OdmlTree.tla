---- MODULE OdmlTree ----
(***************************************************************************)
(* The state machine over OdmlTreeOps: universe, Init, the set of          *)
(* operations offered in a world, Next, what TLC checks, and the emission  *)
(* of every transition for replay into the real library.                   *)
(***************************************************************************)
EXTENDS OdmlTreeOps, Json
CONSTANTS DocIds, SecIds, PropIds, PoolIds, OtherIds, Names,
          IdNames      \* TRUE: objects may start out unnamed (named by their id, token "#x"), such worlds are expanded too, and new_id is an operation
VARIABLES st, last
AllIds == DocIds \cup SecIds \cup PropIds \cup PoolIds \cup OtherIds

KindOf(x) == IF x \in DocIds THEN "doc" ELSE IF x \in SecIds THEN "sec"
             ELSE IF x \in PropIds THEN "prop" ELSE IF x \in OtherIds THEN "other" ELSE "unborn"

Init == /\ \E nm \in [SecIds \cup PropIds -> Names \cup (IF IdNames THEN {"#"} ELSE {})] :
            st = [kind  |-> [x \in AllIds |-> KindOf(x)],
                  kids  |-> [x \in AllIds |-> <<>>],
                  plist |-> [x \in AllIds |-> <<>>],
                  par   |-> [x \in AllIds |-> NONE],
                  name  |-> [x \in AllIds |-> IF x \in SecIds \cup PropIds THEN (IF nm[x] = "#" THEN "#" \o x ELSE nm[x]) ELSE "-"]]
        /\ last = [op |-> [name |-> "init"], out |-> "ok"]

Unborn(w) == {x \in DOMAIN w.kind : w.kind[x] = "unborn"}
Ops(w) ==
  LET O == Objs(w) IN LET C == Conts(w) IN LET K == Kids(w) IN
  {[name |-> "append", c |-> c, x |-> x] : c \in C, x \in O} \cup
  {[name |-> "insert", c |-> c, i |-> i, x |-> x] : c \in C, i \in 0..2, x \in K \cup OtherIds} \cup
  {[name |-> "extend2", c |-> c, x |-> x, y |-> y] : c \in C, x \in K, y \in K \cup OtherIds} \cup
  {[name |-> "remove", c |-> c, x |-> x] : c \in C, x \in K} \cup
  {[name |-> "set_parent", c |-> c, x |-> x] : c \in O \cup {NONE}, x \in K} \cup
  {[name |-> "setitem", c |-> c, i |-> i, x |-> x] : c \in C, i \in 1..2, x \in K} \cup
  {[name |-> "reorder", x |-> x, i |-> i] : x \in K, i \in -2..2} \cup
  {[name |-> "rename", x |-> x, n |-> n] : x \in K, n \in Names \cup {NONE, "empty"}} \cup
  (IF IdNames THEN {[name |-> "new_id", x |-> x, y |-> y] : x \in K, y \in K \cup {NONE}} ELSE {}) \cup
  (IF Unborn(w) = {} THEN {} ELSE LET h == CHOOSE h \in Unborn(w) : TRUE IN
     {[name |-> nm, h |-> h, n |-> n, c |-> c, card |-> card] :
          nm \in {"new_sec", "new_prop"}, n \in Names \cup {NONE}, c \in C \cup {NONE}, card \in {"none", "ok", "bad"}} \cup
     {[name |-> nm, h |-> h, n |-> n, c |-> c] :
          nm \in {"create_sec", "create_prop", "create_prop_badvals"}, n \in Names \cup {NONE}, c \in C})

Expandable(w) == /\ \A x \in PoolIds : w.kind[x] = "unborn"
                 /\ \A x \in DOMAIN w.name : w.name[x] \in Names \cup {"-"} \cup (IF IdNames THEN {"#" \o x} ELSE {})
Next == Expandable(st) /\ \E op \in Ops(st) : \E r \in Post(st, op) :
           /\ st' = r.st
           /\ last' = [op |-> op, out |-> r.out]
Spec == Init /\ [][Next]_<<st, last>>

\* ---- what TLC checks on the reference model (reference => contract) ----
View == st
InvWF == WF(st)
InvUniqueSib == UniqueSiblings(st)
InvNamesOK == NamesOK(st)
StepAtomic == [][Atomic(st, last'.out, st')]_<<st, last>>

\* ---- emission of every transition (ACTION_CONSTRAINT).  Worlds in which a pool object
\* has been born or an object is named by its id are checked against the invariants but
\* not expanded further (they are renamings of worlds that are) ----
Emit == PrintT(ToJson([pre |-> st, op |-> last'.op, out |-> last'.out]))

====
