---- MODULE OdmlSave ----
(* the Save state machine over OdmlSaveOps: every case once, file state before and after *)
EXTENDS OdmlSaveOps
VARIABLES cur, file
Init == cur \in {c \in Cases : Valid(c)} /\ file = cur.file
Save == /\ file = cur.file
        /\ file' = IF RefOutcome(cur) = "saved" THEN "new" ELSE file
        /\ UNCHANGED cur
Spec == Init /\ [][Save]_<<cur, file>>
\* the reference satisfies the contract
NoHarm == [][RefOutcome(cur) # "saved" => file' = file]_<<cur, file>>
Emit == PrintT(ToJson(cur))

====
