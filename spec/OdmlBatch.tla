---- MODULE OdmlBatch ----
(* generator of directories and runs over OdmlBatchOps *)
EXTENDS OdmlBatchOps
\* ---- generator: every directory of up to MaxFiles files (as a set of slots filled in order) ----
CONSTANTS MaxFiles
VARIABLES dir, run
Slots == 1..MaxFiles
Init == dir = <<>> /\ run = [tool |-> "none"]
AddFile == /\ run.tool = "none" /\ Len(dir) < MaxFiles
           /\ \E fk \in FileKinds, w \in {"top", "sub"} : dir' = Append(dir, [kind |-> fk.kind, ext |-> fk.ext, where |-> w])
           /\ UNCHANGED run
Run == /\ run.tool = "none" /\ Len(dir) > 0
       /\ \E t \in Tools, r \in BOOLEAN, o \in {"implicit", "explicit"} : run' = [tool |-> t, recursive |-> r, outdir |-> o]
       /\ UNCHANGED dir
Next == AddFile \/ Run
Spec == Init /\ [][Next]_<<dir, run>>
Emit == run'.tool # "none" => PrintT(ToJson([files |-> dir, run |-> run']))

====
