SPECIFICATION Spec
INVARIANT InvCanon
VIEW View
ACTION_CONSTRAINT Emit
CHECK_DEADLOCK FALSE
