SPECIFICATION TSpec
CONSTANTS URLS = {"A","B","C","D"}
 Inc <- cInc
 Fetch <- cFetch
 Parse <- cParse
 MaxThr = 9
 Prog <- cProg
 CacheInit <- cCache
 FlatIncludes <- cFlat
 defaultInitValue = "dflt"
CONSTRAINT Reached
POSTCONDITION Accepted
CHECK_DEADLOCK FALSE
