SPECIFICATION TSpec
CONSTANTS URLS = {"A","B","C","D"}
 Inc <- cInc
 Fetch <- cFetch
 Parse <- cParse
 MaxThr = 6
 Prog <- cProg
 CacheInit <- cCache
 defaultInitValue = "dflt"
CONSTRAINT Reached
POSTCONDITION Accepted
CHECK_DEADLOCK FALSE
