---- MODULE OdmlReaderGen ----
(***************************************************************************)
(* Generator for C16: the valid file                                       *)
(*    odML -+- s1 (a) -+- p1 (a) p2 (b)                                    *)
(*          |          +- s3 (c) --- p4 (a)                                *)
(*          +- s2 (b) --- p3 (a)                                           *)
(* with up to MaxDefects planted defects: per object a wrong / repeated /  *)
(* missing / unknown / differently-cased element, an XML attribute, empty  *)
(* text, an unparsable value / date / id / cardinality, a duplicate        *)
(* sibling name, wrong nesting, value lists with layout whitespace only /   *)
(* around every item; and per file a structural corruption       *)
(* (truncation, dropped close tag, garbage, wrong root, wrong or missing   *)
(* version).                                                               *)
(***************************************************************************)
EXTENDS Naturals, Sequences, FiniteSets, TLC, Json
CONSTANTS MaxDefects
VARIABLES g, n
SecH == {"s1", "s2", "s3"}
PropH == {"p1", "p2", "p3", "p4"}
SecDefects == {"noname", "notype", "emptyname", "emptytype", "dupname", "unknown-child", "attr", "case-tag", "case-child", "repeat-name",
               "badcard", "badid", "numid", "wrong-nesting", "text-in-element", "noname-dupchild"}
PropDefects == {"noname", "badvalue", "unknown-child", "attr", "case-tag", "repeat-value", "dupname", "badcard", "badid", "wrong-nesting",
                "emptyvalue", "baddtype", "noname-badvalue", "blanklist", "spacedlist", "numid"}
DocDefects == {"unknown-child", "baddate", "attr", "prop-at-root", "badid", "numid"}      \* numid: an id that is a number, not text
Corruptions == {"truncate", "dropclose", "garbage", "wrongroot", "caseroot", "wrongversion", "noversion", "empty"}
Init == g = [x \in SecH \cup PropH \cup {"d1", "file"} |-> "ok"] /\ n = 0
Next == /\ n < MaxDefects /\ n' = n + 1
        \* a duplicate name is planted on the later sibling only (s2 after s1, p2 after p1)
        /\ \/ \E x \in SecH : g[x] = "ok" /\ \E d \in SecDefects : (d = "dupname" => x = "s2") /\ g' = [g EXCEPT ![x] = d]
           \/ \E x \in PropH : g[x] = "ok" /\ \E d \in PropDefects : (d = "dupname" => x = "p2") /\ g' = [g EXCEPT ![x] = d]
           \/ g["d1"] = "ok" /\ \E d \in DocDefects : g' = [g EXCEPT !["d1"] = d]
           \/ g["file"] = "ok" /\ \E d \in Corruptions : g' = [g EXCEPT !["file"] = d]
Spec == Init /\ [][Next]_<<g, n>>
View == g
TypeOK == n <= MaxDefects
Emit == PrintT(ToJson(g'))
====
