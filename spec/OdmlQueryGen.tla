---- MODULE OdmlQueryGen ----
(* Generator of queries: every set of 1..MaxPairs attribute=value pairs over the alphabet (match mode) and
   every (attribute set, term set) for the fuzzy mode.  Emitted once each (a query is one state). *)
EXTENDS Naturals, FiniteSets, Sequences, TLC, Json
CONSTANTS MaxPairs
Alphabet == [Doc |-> [author |-> {"alice", "zz"}, version |-> {"v1"}],
             Sec |-> [name |-> {"a", "b"}, type |-> {"t", "u"}, definition |-> {"def one", "one"}, reference |-> {"ref1"}],
             Prop |-> [name |-> {"a", "zz"}, unit |-> {"mV"}, dtype |-> {"int", "string"}, value_origin |-> {"orig.dat"}, definition |-> {"def one"}]]
Universe == UNION {UNION {{[kind |-> k, attr |-> a, val |-> v] : v \in Alphabet[k][a]} : a \in DOMAIN Alphabet[k]} : k \in DOMAIN Alphabet}
Attrs == UNION {{[kind |-> k, attr |-> a] : a \in DOMAIN Alphabet[k]} : k \in DOMAIN Alphabet}
Terms == {"a", "t", "alice", "zz", "def one", "one"}     \* also a term of several words, and its last word
Consistent(P) == \A q1, q2 \in P : (q1.kind = q2.kind /\ q1.attr = q2.attr) => q1 = q2
VARIABLES q
Init == q = [mode |-> "none"]
Next == /\ q.mode = "none"
        /\ \/ \E P \in SUBSET Universe : Cardinality(P) \in 1..MaxPairs /\ Consistent(P) /\ q' = [mode |-> "match", pairs |-> P]
           \/ \E A \in SUBSET Attrs, T \in SUBSET Terms : Cardinality(A) \in 1..2 /\ Cardinality(T) \in 1..2 /\ q' = [mode |-> "fuzzy", attrs |-> A, terms |-> T]
Spec == Init /\ [][Next]_q
Emit == PrintT(ToJson(q'))
====
