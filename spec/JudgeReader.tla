---- MODULE JudgeReader ----
(* Judge for C16 observations (and C03/C04 on every document a reader returns). *)
EXTENDS OdmlReader, Json, IOUtils
Obs == ndJsonDeserialize(IOEnv.OBS_FILE)
VARIABLE l
Defects(o) == {o.g[x] : x \in DOMAIN o.g} \ {"ok"}
Say(o, prop, clause, sig) == PrintT(ToJson(<<"VIOL", prop, clause, o.k, sig>>))
C(o, ok, prop, clause, sig) == IF ok THEN TRUE ELSE Say(o, prop, clause, sig)
Base(o) == <<o.fmt, o.mode>>
Check(i) == LET o == Obs[i] IN
   /\ C(o, Total(o), "C16", "DocumentOrParserException", <<Base(o), o.outcome, Defects(o)>>)
   /\ C(o, VersionClass(o), "C16", "OtherVersionIsInvalidVersionException", <<Base(o), o.outcome>>)
   /\ C(o, BrokenRefused(o), "C16", "BrokenInputIsRefused", <<Base(o), o.g["file"]>>)
   /\ C(o, Total(o) => LenientNeverRaises(o), "C16", "LenientNeverRaises", <<Base(o), o.outcome, Defects(o)>>)
   /\ C(o, NoWarningWithoutProblem(o), "C16", "NoWarningWithoutProblem", <<Base(o)>>)
   /\ C(o, ProblemIsWarned(o), "C16", "EveryProblemIsWarned", <<Base(o), Problems(o.g, o.fmt)>>)
   /\ C(o, ValidPartsKept(o), "C16", "ValidPartsKept", <<Base(o), Defects(o)>>)
   /\ C(o, CleanIsAccepted(o), "C16", "ValidFileAccepted", <<Base(o), o.outcome>>)
   /\ C(o, ResultWellFormed(o), "C16", "ReturnedDocumentIsWellFormed", <<Base(o), Defects(o)>>)
   /\ C(o, o.outcome = "Document" => WF(o.w), "C03", "WF", <<"reader", Base(o)>>)
   /\ C(o, o.outcome = "Document" => UniqueSiblings(o.w), "C04", "UniqueSiblings", <<"reader", Base(o)>>)
JInit == l = 1
JNext == l <= Len(Obs) /\ (Check(l) = TRUE) /\ l' = l + 1
JSpec == JInit /\ [][JNext]_l
Done == IF TLCGet("stats").diameter - 1 = Len(Obs) THEN TRUE
        ELSE PrintT(ToJson(<<"INCOMPLETE", TLCGet("stats").diameter - 1, Len(Obs)>>)) /\ FALSE
====
