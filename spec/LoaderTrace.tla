---- MODULE LoaderTrace ----
(***************************************************************************)
(* Trace validation for C18: is an event log recorded from the real        *)
(* odml/terminology.py under the deterministic scheduler a behaviour of    *)
(* OdmlLoader?  One event per access to the shared tables / thread         *)
(* operation: [tid, k (kind), u (url or "-"), t (thread id or 0)].         *)
(* Labels without a counterpart in the log are taken as silent steps in a  *)
(* canonical order; the highest position reached is kept in a TLC register.*)
(***************************************************************************)
EXTENDS LoaderEvents, Json, TLCExt
EvTrace == ndJsonDeserialize(IOEnv.TRACE_FILE)
VARIABLE l
StepOf(p) == Load(p) \/ RawLoad(p) \/ Deferred(p) \/ TLoad(p) \/ TRawLoad(p) \/ TDeferred(p) \/ (p = Main /\ M(p)) \/ (p \in Thr /\ T(p))
TInit == Init /\ l = 1 /\ TLCSet(1, 1)
Silent == \E p \in Procs : /\ IsLocal(p) /\ \A q \in Procs : q < p => ~IsLocal(q)
                          /\ StepOf(p) /\ l' = l
Event == /\ \A p \in Procs : ~IsLocal(p)
         /\ l <= Len(EvTrace)
         /\ LET e == EvTrace[l] IN
              /\ e.tid \in Procs /\ IsAccess(e.tid) /\ Kind[pc[e.tid]] = e.k
              /\ ArgU(e.tid) = e.u /\ ArgT(e.tid) = e.t
              /\ StepOf(e.tid)
         /\ l' = l + 1
TNext == Silent \/ Event
TSpec == TInit /\ [][TNext]_<<vars, l>>
Reached == TLCSet(1, IF l > TLCGet(1) THEN l ELSE TLCGet(1))
Accepted == IF TLCGet(1) = Len(EvTrace) + 1 THEN TRUE
            ELSE PrintT(ToJson(<<"REJECTED", TLCGet(1), Len(EvTrace)>>)) /\ FALSE
====
