---- MODULE LoaderTrace ----
(***************************************************************************)
(* Trace validation for C18: is an event log recorded from the real        *)
(* odml/terminology.py under the deterministic scheduler a behaviour of    *)
(* OdmlLoader?  One event per access to the shared tables / thread         *)
(* operation: [tid, k (kind), u (url or "-"), t (thread id or 0)].         *)
(* Labels without a counterpart in the log are taken as silent steps in a  *)
(* canonical order; the highest position reached is kept in a TLC register.*)
(***************************************************************************)
EXTENDS MC_Loader, Json, TLCExt
EvTrace == ndJsonDeserialize(IOEnv.TRACE_FILE)
VARIABLE l
Kind == [LdIn |-> "loaded.in", LdGet |-> "loaded.get", LgIn |-> "loading.in", LgGet |-> "loading.get",
         Join |-> "join", Joined |-> "joined", LgPop |-> "loading.pop", Pub |-> "loaded.set",
         DfLdIn |-> "loaded.in", DfLgIn |-> "loading.in", DfSet |-> "loading.set", DfGet |-> "loading.get",
         DfStart |-> "start", MBegin |-> "begin", TBegin |-> "begin", RfClear |-> "loaded.clear"]
IsAccess(p) == pc[p] \in DOMAIN Kind
IsLocal(p) == pc[p] \notin DOMAIN Kind /\ pc[p] \notin {"Done", "Halt", "DHalt"}
\* the argument the model's process would use at its current label
ArgU(p) == CASE pc[p] \in {"LdIn", "LdGet", "LgIn", "LgGet", "LgPop"} -> u[p]
             [] pc[p] = "Pub" -> v[p]
             [] pc[p] \in {"DfLdIn", "DfLgIn", "DfSet", "DfGet"} -> w[p]
             [] OTHER -> "-"
ArgT(p) == CASE pc[p] \in {"Join", "Joined"} -> jt[p]
             [] pc[p] = "DfStart" -> st[p]
             [] OTHER -> 0
StepOf(p) == Load(p) \/ RawLoad(p) \/ Deferred(p) \/ (p = Main /\ M(p)) \/ (p \in Thr /\ T(p))
TInit == Init /\ l = 1 /\ TLCSet(1, 1)
Silent == \E p \in Procs : /\ IsLocal(p) /\ \A q \in Procs : q < p => ~IsLocal(q)
                          /\ StepOf(p) /\ l' = l
Event == /\ \A p \in Procs : ~IsLocal(p)
         /\ l <= Len(EvTrace)
         /\ LET e == EvTrace[l] IN
              /\ e.tid \in Procs /\ IsAccess(e.tid) /\ Kind[pc[e.tid]] = e.k
              /\ ArgU(e.tid) = e.u /\ ArgT(e.tid) = e.t
              /\ StepOf(e.tid)
         /\ l' = l + 1
TNext == Silent \/ Event
TSpec == TInit /\ [][TNext]_<<vars, l>>
Reached == TLCSet(1, IF l > TLCGet(1) THEN l ELSE TLCGet(1))
Accepted == IF TLCGet(1) = Len(EvTrace) + 1 THEN TRUE
            ELSE PrintT(ToJson(<<"REJECTED", TLCGet(1), Len(EvTrace)>>)) /\ FALSE
====
