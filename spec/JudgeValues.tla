---- MODULE JudgeValues ----
(***************************************************************************)
(* Judge for observations of one Property's (dtype, values) machine:       *)
(* C05 (Conforms, DtypeStep, SelfAssign, RefusalClass), C06 (Atomic),      *)
(* C11 (clone leaves the original alone and equals it), conformance to the *)
(* reference model OdmlValuesOps!Post.                                     *)
(***************************************************************************)
EXTENDS OdmlValuesOps, Json, IOUtils
Obs == ndJsonDeserialize(IOEnv.OBS_FILE)
VARIABLE l
SigOf(o) == <<o.op.name,
              IF "in" \in DOMAIN o.op THEN o.op.in ELSE IF "d" \in DOMAIN o.op THEN o.op.d ELSE "-",
              IF o.op.name = "ctor" THEN o.op.d ELSE o.pre.dtype,
              IF "strict" \in DOMAIN o.op THEN (IF o.op.strict THEN "strict" ELSE "lenient") ELSE "-">>
Say(tag, prop, clause, o) == PrintT(ToJson(<<tag, prop, clause, o.k, SigOf(o)>>))
Chk(P, prop, clause, o) == IF P THEN TRUE ELSE Say("VIOL", prop, clause, o)
AbsOf(p) == Abs(p.dtype, p.n)
InDomain(p) == p.dtype \in Dtypes \cup {"none", "absent"}
Conf(o) == (InDomain(o.pre) /\ InDomain(o.post)) =>
              R(o.out, AbsOf(o.post)) \in Post(IF o.pre.dtype = "absent" THEN Abs("none", 0) ELSE AbsOf(o.pre), o.op)
CloneOK(o) == o.op.name = "clone" /\ o.out = "ok" => Same(o.post, o.pre) /\ Same(o.orig_after, o.pre)
Check(i) == LET o == Obs[i] IN
   /\ Chk(Conforms(o.pre) \/ o.pre.dtype = "absent" => StepConforms(o), "C05", "Conforms", o)
   /\ Chk(DtypeStep(o), "C05", "DtypeStep", o)
   /\ Chk(Conforms(o.post) => SelfAssign(o), "C05", "SelfAssign", o)
   /\ Chk(RefusalClass(o), "C05", "RefusalIsValueError", o)
   /\ Chk(NothingDropped(o), "C05", "AcceptedInputIsStoredCompletely", o)
   /\ Chk(Atomic(o), "C05", "RefusedChangesNothing", o)
   /\ Chk(Atomic(o), "C06", "Atomic", o)
   /\ Chk(CloneOK(o), "C11", "PropertyClone", o)
   /\ IF Conforms(o.post) /\ Atomic(o) /\ ~Conf(o) THEN Say("DIVERGENCE", "-", "-", o) ELSE TRUE
JInit == l = 1
JNext == l <= Len(Obs) /\ Check(l) /\ l' = l + 1
JSpec == JInit /\ [][JNext]_l
Done == IF TLCGet("stats").diameter - 1 = Len(Obs) THEN TRUE
        ELSE PrintT(ToJson(<<"INCOMPLETE", TLCGet("stats").diameter - 1, Len(Obs)>>)) /\ FALSE
====
