SPECIFICATION Spec
POSTCONDITION Done
CHECK_DEADLOCK FALSE
