SPECIFICATION Spec
PROPERTY NoHarm
ACTION_CONSTRAINT Emit
CHECK_DEADLOCK FALSE
