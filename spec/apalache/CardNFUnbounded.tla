---- MODULE CardNFUnbounded ----
(***************************************************************************)
(* C09, unbounded part: for ALL integers a, b (each possibly None) the     *)
(* normal-form rules of OdmlCardOps!FormatCard applied to the pair (a, b)  *)
(* either refuse or produce a cardinality in normal form.  Checked by      *)
(* Apalache (SMT, unbounded integers):                                     *)
(*   apalache-mc check --init=Init --next=Next --inv=Inv --length=0        *)
(* None is modelled by the flags an / bn instead of the marker 99 that the *)
(* TLC instance uses, so that every integer is a real bound.               *)
(***************************************************************************)
EXTENDS Integers
VARIABLES
  \* @type: Int;
  a,
  \* @type: Int;
  b,
  \* @type: Bool;
  an,
  \* @type: Bool;
  bn

Falsy(x, xn) == xn \/ x = 0
\* result: <<refused, min, minNone, max, maxNone>> as separate definitions
Unset == Falsy(a, an) /\ Falsy(b, bn)
Mi == ~an /\ a >= 0
Ma == ~bn /\ b >= 0
Both == ~Unset /\ Mi /\ Ma /\ b >= a
OnlyMax == ~Unset /\ ~Both /\ Ma /\ Falsy(a, an)
OnlyMin == ~Unset /\ ~Both /\ ~OnlyMax /\ Mi /\ Falsy(b, bn)
Refused == ~Unset /\ ~Both /\ ~OnlyMax /\ ~OnlyMin
ResMinNone == Unset \/ OnlyMax
ResMaxNone == Unset \/ OnlyMin
ResMin == a
ResMax == b
\* normal form: bounds non-negative integers or None, not both empty unless unset, min <= max
NF == /\ (~ResMinNone => ResMin >= 0) /\ (~ResMaxNone => ResMax >= 0)
      /\ ((~ResMinNone /\ ~ResMaxNone) => ResMin <= ResMax)
      /\ (Unset \/ ~(ResMinNone /\ ResMaxNone))
      /\ (~Unset => ~((ResMinNone \/ ResMin = 0) /\ (ResMaxNone \/ ResMax = 0)))
Init == a \in Int /\ b \in Int /\ an \in BOOLEAN /\ bn \in BOOLEAN
Next == UNCHANGED <<a, b, an, bn>>
Inv == Refused \/ NF
====
