---- MODULE LoaderEvents ----
(***************************************************************************)
(* The correspondence between labels of OdmlLoader and the events the      *)
(* deterministic scheduler records from the real code (shared by the trace *)
(* validation LoaderTrace, code -> spec, and by the behaviour generator    *)
(* LoaderBeh, spec -> code).                                               *)
(***************************************************************************)
EXTENDS MC_Loader
Kind == [LdIn |-> "loaded.in", LdGet |-> "loaded.get", LgIn |-> "loading.in", LgGet |-> "loading.get",
         Join |-> "join", Joined |-> "joined", LgPop |-> "loading.pop", Pub |-> "loaded.set",
         DfLdIn |-> "loaded.in", DfLgIn |-> "loading.in", DfSet |-> "loading.set", DfGet |-> "loading.get",
         DfStart |-> "start", MBegin |-> "begin", TBegin |-> "begin", RfClear |-> "loaded.clear", MTouch |-> "touch", MAppear |-> "appear",
         TLdIn |-> "tloaded.in", TLdGet |-> "tloaded.get", TLgIn |-> "tloading.in", TLgGet |-> "tloading.get", TJoin |-> "join", TJoined |-> "joined",
         TLgPop |-> "tloading.pop", TPub |-> "tloaded.set", TDfLdIn |-> "tloaded.in", TDfLgIn |-> "tloading.in", TDfSet |-> "tloading.set",
         TDfGet |-> "tloading.get", TDfStart |-> "start"]
IsAccess(p) == pc[p] \in DOMAIN Kind
IsLocal(p) == pc[p] \notin DOMAIN Kind /\ pc[p] \notin {"Done", "HDead", "DDead", "THDead", "TDDead"}
\* the argument the model's process would use at its current label
ArgU(p) == CASE pc[p] \in {"LdIn", "LdGet", "LgIn", "LgGet", "LgPop"} -> u[p]
             [] pc[p] = "Pub" -> v[p]
             [] pc[p] \in {"MTouch", "MAppear"} -> Prog[k[p]][2]
             [] pc[p] \in {"TLdIn", "TLdGet", "TLgIn", "TLgGet", "TLgPop"} -> tu[p]
             [] pc[p] = "TPub" -> tv[p]
             [] pc[p] \in {"TDfLdIn", "TDfLgIn", "TDfSet", "TDfGet"} -> tw[p]
             [] pc[p] \in {"DfLdIn", "DfLgIn", "DfSet", "DfGet"} -> w[p]
             [] OTHER -> "-"
ArgT(p) == CASE pc[p] \in {"Join", "Joined"} -> jt[p]
             [] pc[p] = "DfStart" -> st[p]
             [] pc[p] \in {"TJoin", "TJoined"} -> tjt[p]
             [] pc[p] = "TDfStart" -> tst[p]
             [] OTHER -> 0
====
