---- MODULE OdmlConvertGen ----
(***************************************************************************)
(* Generator of odML 1.0 documents for C15: from the base                  *)
(*    doc -+- s1 (a) -+- p1 (a: two value elements)  p2 (b: one value) p5 (c) *)
(*         |          +- s3 (a) --- p4 (a: one value)                      *)
(*         +- s2 (b) -+- p3 (a: three value elements)                      *)
(*                    +- s4 (a)   (a cousin of s3 with the same name)      *)
(* every sequence of at most MaxMut mutations: duplicate sibling names,    *)
(* ids present / absent / malformed, unnamed Properties, unsupported       *)
(* elements at every level, value attributes (unit, type, uncertainty,     *)
(* filename, definition, reference) on the first / a later / all value     *)
(* elements, agreeing and conflicting, texts containing commas, the        *)
(* 'binary' type, a first value element without text that only types the   *)
(* Property, the dependency_value spelling, Properties without value. *)
(***************************************************************************)
EXTENDS Naturals, Sequences, FiniteSets, TLC, Json
CONSTANTS MaxMut
VARIABLES g, nmut
SecH == {"s1", "s2", "s3", "s4"}
PropH == {"p1", "p2", "p3", "p4", "p5"}
All == {"d1"} \cup SecH \cup PropH
NV(x) == IF x = "p1" THEN 2 ELSE IF x = "p3" THEN 3 ELSE 1
Base(x) == IF x = "d1" THEN [idc |-> "valid", extra |-> FALSE]
           ELSE IF x \in SecH THEN [name |-> IF x = "s2" THEN "b" ELSE "a", idc |-> "valid", extra |-> FALSE]
           ELSE [name |-> IF x = "p2" THEN "b" ELSE IF x = "p5" THEN "c" ELSE "a", named |-> TRUE, idc |-> "valid", extra |-> FALSE, nvals |-> NV(x), vtext |-> "plain",
                 unit |-> "none", dtype |-> "none", uncertainty |-> "none", filename |-> "none", definition |-> "none", reference |-> "none",
                 vextra |-> FALSE, depval |-> FALSE]
Init == g = [x \in All |-> Base(x)] /\ nmut = 0
Place == {"first", "later", "all-agree", "all-conflict"}
Mut(x) ==
   {[f |-> "idc", v |-> c] : c \in {"absent", "malformed"}} \cup {[f |-> "extra", v |-> TRUE]} \cup
   (IF x \in SecH \cup PropH THEN {[f |-> "name", v |-> n] : n \in {"a", "b", "a-2"}} ELSE {}) \cup
   (IF x \in PropH THEN {[f |-> "named", v |-> FALSE], [f |-> "vtext", v |-> "comma"], [f |-> "vtext", v |-> "newline"], [f |-> "vtext", v |-> "falsy"], [f |-> "vtext", v |-> "blankfirst"], [f |-> "vextra", v |-> TRUE], [f |-> "depval", v |-> TRUE]} \cup
                        {[f |-> "nvals", v |-> n] : n \in {0, 1, 3}} \cup
                        {[f |-> a, v |-> p] : a \in {"unit", "dtype", "uncertainty", "filename", "definition", "reference"}, p \in Place} \cup
                        {[f |-> "dtype", v |-> "binary"]}
    ELSE {})
Next == /\ nmut < MaxMut /\ nmut' = nmut + 1
        /\ \E x \in All : \E m \in Mut(x) : g[x][m.f] # m.v /\ g' = [g EXCEPT ![x][m.f] = m.v]
Spec == Init /\ [][Next]_<<g, nmut>>
View == g
TypeOK == nmut <= MaxMut
Emit == PrintT(ToJson(g'))
====
