SPECIFICATION JSpec
POSTCONDITION Done
CHECK_DEADLOCK FALSE
