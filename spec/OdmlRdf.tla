---- MODULE OdmlRdf ----
(***************************************************************************)
(* C10 - RDF export is a faithful, well-formed graph that imports back     *)
(* unchanged.  The abstract graph of the odML RDF model and the CONTRACT.  *)
(* An observed graph is given per object handle x (the harness maps node   *)
(* names, which are ids, back to handles and resolves each rdf:Seq into    *)
(* the ordered list of its members):                                       *)
(*   g.hubs            set of nodes that have a hasDocument triple         *)
(*   g.hubdocs         sequence of documents the Hub links                 *)
(*   g.nodes[x]        number of nodes named by the id of x                *)
(*   g.types[x]        set of rdf:type local names of x                    *)
(*   g.subclassof[c]   declared super classes of class c                   *)
(*   g.attrs[x]        record: carried attribute -> text of the literal    *)
(*   g.kids[x], g.plist[x]   sets of hasSection / hasProperty targets      *)
(*   g.vals[x]         the value sequence (same tokens as st.vals)         *)
(*   g.repo[x], g.hubterms   repository URLs x / the Hub point to          *)
(* w.rdfvals[x]: the values as RDF literals carry them (an n-tuple as the   *)
(* text "(a;b)").                                                          *)
(* w is the full world (OdmlClone) of the exported documents; attribute    *)
(* texts in w.rdfattrs[x] (only the attributes the RDF model carries,      *)
(* unset ones absent).                                                     *)
(***************************************************************************)
EXTENDS OdmlClone
ClassOf(k) == IF k = "doc" THEN "Document" ELSE IF k = "sec" THEN "Section" ELSE "Property"
InDocs(w, docs) == UNION {Sub(w, d) : d \in SeqRange(docs)}
\* a single Hub links every Document, each exactly once
HubOK(w, docs, g) == /\ g.hubs = {"Hub"}
                     /\ SeqRange(g.hubdocs) = SeqRange(docs) /\ Len(g.hubdocs) = Len(docs)
\* each Document / Section / Property is one node named by its id
OneNodeEach(w, docs, g) == \A x \in InDocs(w, docs) : g.nodes[x] = 1
\* typed as its odML class or a declared sub-class of Section
TypesOK(w, docs, g, subclassing) ==
   \A x \in InDocs(w, docs) :
      \/ g.types[x] = {ClassOf(w.kind[x])}
      \/ /\ subclassing /\ w.kind[x] = "sec" /\ Cardinality(g.types[x]) = 1
         /\ \A c \in g.types[x] : c \in DOMAIN g.subclassof /\ "Section" \in g.subclassof[c]
\* carrying exactly its set attributes
AttrsOK(w, docs, g) == \A x \in InDocs(w, docs) : g.attrs[x] = w.rdfattrs[x]
AttrMismatch(w, docs, g) == {a \in UNION {DOMAIN g.attrs[x] \cup DOMAIN w.rdfattrs[x] : x \in InDocs(w, docs)} :
                               \E x \in InDocs(w, docs) : (a \in DOMAIN g.attrs[x]) # (a \in DOMAIN w.rdfattrs[x])
                                                          \/ (a \in DOMAIN g.attrs[x] /\ a \in DOMAIN w.rdfattrs[x] /\ g.attrs[x][a] # w.rdfattrs[x][a])}
\* the repository of a Document / Section (its own, not an inherited one): the node points to a terminology
\* node typed as that URL; the Hub lists exactly the terminologies in use.  g.repo[x]: URLs x points to
RepoOK(w, docs, g) == /\ \A x \in InDocs(w, docs) : g.repo[x] = (IF w.rdfrepo[x] = "none" THEN {} ELSE {w.rdfrepo[x]})
                      /\ g.hubterms = {w.rdfrepo[x] : x \in InDocs(w, docs)} \ {"none"}
\* containment
ChildrenOK(w, docs, g) == \A x \in InDocs(w, docs) : g.kids[x] = SeqRange(w.kids[x]) /\ g.plist[x] = SeqRange(w.plist[x])
\* each Property's values form an ordered sequence
ValuesOK(w, docs, g) == \A x \in InDocs(w, docs) : w.kind[x] = "prop" => g.vals[x] = w.rdfvals[x]
GraphOK(w, docs, g, subclassing) == HubOK(w, docs, g) /\ OneNodeEach(w, docs, g) /\ TypesOK(w, docs, g, subclassing)
                                    /\ AttrsOK(w, docs, g) /\ ChildrenOK(w, docs, g) /\ ValuesOK(w, docs, g)

\* Import: one document per exported document; objects correspond by id; carried attributes and
\* values equal; only the order of siblings may differ.  r: full world of the imported documents
\* with r.rdfattrs, imp: sequence of imported document handles.
ById(r, S, i) == {y \in S : r.id[y] = i}
ImportOK(w, docs, r, imp) ==
   LET A == InDocs(w, docs) IN LET B == InDocs(r, imp) IN
   /\ Len(imp) = Len(docs)
   /\ Cardinality(B) = Cardinality(A)
   /\ \A x \in A : \E y \in B :
        /\ r.id[y] = w.id[x] /\ r.kind[y] = w.kind[x] /\ r.name[y] = w.name[x]
        /\ r.rdfattrs[y] = w.rdfattrs[x]
        /\ r.vals[y] = w.vals[x]
        /\ (w.kind[x] # "doc" => r.par[y] # NONE /\ r.id[r.par[y]] = w.id[w.par[x]])
ImportMismatch(w, docs, r, imp) ==
   {w.kind[x] : x \in {x \in InDocs(w, docs) : ~\E y \in InDocs(r, imp) :
        r.id[y] = w.id[x] /\ r.kind[y] = w.kind[x] /\ r.name[y] = w.name[x] /\ r.rdfattrs[y] = w.rdfattrs[x] /\ r.vals[y] = w.vals[x]}}
====
