---- MODULE ValueCodec ----
(* Enumerates every value list over the character classes and checks the codec's own
   round-trip theorem; every list is emitted for the comparison with the real codec. *)
EXTENDS ValueCodecOps, Json
CONSTANTS Classes, MaxLen, MaxVals
\* all texts up to MaxLen, plus every class framed by plain characters (a special character inside a value)
Texts == UNION {[1..n -> Classes] : n \in 1..MaxLen} \cup {<<"p", c, "p">> : c \in Classes}
VARIABLES vs, phase
Init == vs = <<>> /\ phase = "build"
Next == \/ /\ phase = "build" /\ Len(vs) < MaxVals /\ \E t \in Texts : vs' = Append(vs, t) /\ phase' = "build"
        \/ /\ phase = "build" /\ Len(vs) > 0 /\ phase' = "done" /\ vs' = vs
Spec == Init /\ [][Next]_<<vs, phase>>
ThmRoundTrip == (phase = "done" /\ Representable(vs)) => DecVals(EncVals(vs)) = TrimAll(vs)
Emit == phase' = "done" => PrintT(ToJson([vs |-> vs, rep |-> Representable(vs), enc |-> IF Representable(vs) THEN EncVals(vs) ELSE <<>>]))
====
