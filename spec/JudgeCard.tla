---- MODULE JudgeCard ----
(* Judge for C09 observations (and the cardinality part of C06). *)
EXTENDS OdmlCardOps, Json, IOUtils
Obs == ndJsonDeserialize(IOEnv.OBS_FILE)
VARIABLE l
XSig(x) == IF x.t = "pair" THEN <<"pair", x.a, x.b>> ELSE IF x.t = "int" THEN <<"int", x.v>> ELSE <<x.t>>
SigOf(o) == <<o.kind, o.op.name,
              IF "x" \in DOMAIN o.op THEN XSig(o.op.x) ELSE IF "fmt" \in DOMAIN o.op THEN <<o.op.fmt, o.pre.card>> ELSE <<o.pre.card, o.pre.count>> >>
Say(tag, prop, clause, o) == PrintT(ToJson(<<tag, prop, clause, o.k, SigOf(o)>>))
Chk(P, prop, clause, o) == IF P THEN TRUE ELSE Say("VIOL", prop, clause, o)
IsSet(o) == o.op.name \in {"set", "setminmax"}
Ref(o) == LET f == FormatCard(o.op.x) IN
            IF f = Raise THEN o.out = "raised" /\ o.post.card = o.pre.card ELSE o.out = "ok" /\ o.post.card = f
Check(i) == LET o == Obs[i] IN
   /\ Chk(CardNF(o.post.card), "C09", "CardNF", o)
   /\ Chk(IsSet(o) => SetOK(o), "C09", "SetOK", o)
   /\ Chk(WarnOK(o.pre) => WarnOK(o.post), "C09", "WarnExact", o)
   /\ Chk(FreeEdit(o), "C09", "NeverEnforced", o)
   /\ Chk(Persisted(o), "C09", "Persisted", o)
   /\ Chk(o.out = "raised" => o.post = o.pre, "C06", "Atomic", o)
   /\ IF IsSet(o) /\ SetOK(o) /\ ~Ref(o) THEN Say("DIVERGENCE", "-", "-", o) ELSE TRUE
JInit == l = 1
JNext == l <= Len(Obs) /\ Check(l) /\ l' = l + 1
JSpec == JInit /\ [][JNext]_l
Done == IF TLCGet("stats").diameter - 1 = Len(Obs) THEN TRUE
        ELSE PrintT(ToJson(<<"INCOMPLETE", TLCGet("stats").diameter - 1, Len(Obs)>>)) /\ FALSE
====
