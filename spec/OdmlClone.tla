---- MODULE OdmlClone ----
(***************************************************************************)
(* C11 - copies handed out are equal to, and independent of, the original. *)
(* CONTRACT operators over "full" worlds: a world record (OdmlWorld) with  *)
(*   attrs[x]  record of every attribute of x (text of the value)          *)
(*   vals[x]   the value list of a Property, nested lists kept nested      *)
(*   id[x]     id token ("i1", "i2", ... canonical ids; "bad:..." else)    *)
(***************************************************************************)
EXTENDS OdmlWorld

Content(st, x) == [kind |-> st.kind[x], name |-> st.name[x], attrs |-> st.attrs[x], vals |-> st.vals[x]]
FullOf(st, x) == [kind |-> st.kind[x], name |-> st.name[x], attrs |-> st.attrs[x], vals |-> st.vals[x],
                  id |-> st.id[x], par |-> st.par[x], kids |-> st.kids[x], plist |-> st.plist[x]]
Sub(st, x) == {y \in Objs(st) : InSubtree(st, y, x)}
\* deep equality, ids ignored, sibling order kept; withKids = FALSE compares the roots only
RECURSIVE EqualB(_,_,_,_,_)
EqualB(s1, x, s2, y, n) ==
   /\ n > 0
   /\ Content(s1, x) = Content(s2, y)
   /\ Len(s1.kids[x]) = Len(s2.kids[y]) /\ Len(s1.plist[x]) = Len(s2.plist[y])
   /\ \A i \in DOMAIN s1.kids[x] : EqualB(s1, s1.kids[x][i], s2, s2.kids[y][i], n - 1)
   /\ \A i \in DOMAIN s1.plist[x] : EqualB(s1, s1.plist[x][i], s2, s2.plist[y][i], n - 1)
Equal(s1, x, s2, y) == EqualB(s1, x, s2, y, Cardinality(DOMAIN s1.kind) + 1)
\* pairs (original, copy) matched by position
RECURSIVE PairsB(_,_,_,_,_)
PairsB(s1, x, s2, y, n) ==
   IF n = 0 THEN {} ELSE
   {<<x, y>>} \cup UNION {PairsB(s1, s1.kids[x][i], s2, s2.kids[y][i], n - 1) : i \in DOMAIN s1.kids[x] \cap DOMAIN s2.kids[y]}
              \cup UNION {PairsB(s1, s1.plist[x][i], s2, s2.plist[y][i], n - 1) : i \in DOMAIN s1.plist[x] \cap DOMAIN s2.plist[y]}
Pairs(s1, x, s2, y) == PairsB(s1, x, s2, y, Cardinality(DOMAIN s1.kind) + 1)
IdCanon(tok) == tok \notin {"none", "bad"}
New(pre, h) == h \notin DOMAIN pre.kind
PreIds(pre) == {pre.id[h] : h \in Objs(pre)}
\* everything that existed before is exactly as it was
Unchanged(pre, post, H) == \A h \in H : h \in DOMAIN post.kind /\ FullOf(post, h) = FullOf(pre, h)

\* o = [pre, post, x, y, children, keep, out]
ClonePost(o) ==
   LET pre == o.pre IN LET post == o.post IN LET x == o.x IN LET y == o.y IN
   /\ o.out = "ok"
   /\ New(pre, y) /\ (post.kind[y] = "doc" \/ post.par[y] = NONE)                      \* detached
   /\ \A z \in Sub(post, y) : New(pre, z)                                              \* every sub-object is new
   /\ IF o.children THEN Equal(pre, x, post, y)
      ELSE Content(pre, x) = Content(post, y) /\ post.kids[y] = <<>> /\ post.plist[y] = <<>>
   /\ IF o.keep THEN \A pr \in Pairs(pre, x, post, y) : post.id[pr[2]] = pre.id[pr[1]]
      ELSE /\ \A z \in Sub(post, y) : IdCanon(post.id[z]) /\ post.id[z] \notin PreIds(pre)
           /\ \A z1, z2 \in Sub(post, y) : z1 # z2 => post.id[z1] # post.id[z2]
   /\ WFStruct(post) /\ UniqueSiblings(post)
CloneFrame(o) == Unchanged(o.pre, o.post, DOMAIN o.pre.kind)

\* the chain from the root to x:  <<root, ..., x>>  (x itself for a detached object)
RECURSIVE ChainB(_,_,_)
ChainB(st, x, n) == IF n = 0 \/ st.kind[x] = "doc" \/ st.par[x] = NONE THEN <<x>> ELSE Append(ChainB(st, st.par[x], n - 1), x)
Chain(st, x) == ChainB(st, x, Cardinality(DOMAIN st.kind) + 1)
\* export_leaf of x (a Section, or a Property standing for its parent Section): o = [pre, post, x, y]
ExportPost(o) ==
   LET pre == o.pre IN LET post == o.post IN
   LET leaf == IF pre.kind[o.x] = "prop" /\ pre.par[o.x] # NONE THEN pre.par[o.x] ELSE o.x IN
   LET ch == Chain(pre, leaf) IN
   /\ o.out = "ok"
   /\ IF pre.kind[o.x] = "prop" /\ pre.par[o.x] = NONE THEN o.y = o.x          \* a detached Property exports itself
      ELSE
      /\ New(pre, o.y) /\ \A z \in Sub(post, o.y) : New(pre, z)
      /\ (post.kind[o.y] = "doc" \/ post.par[o.y] = NONE)
      /\ WFStruct(post)
      \* the copy is exactly the chain: one node per chain element, each with all Properties of the original
      /\ LET cp == Chain(post, CHOOSE z \in Sub(post, o.y) : post.kind[z] # "prop" /\ post.kids[z] = <<>>) IN
         /\ Len(cp) = Len(ch) /\ cp[1] = o.y
         /\ \A i \in DOMAIN ch :
              /\ Content(post, cp[i]) = Content(pre, ch[i]) /\ post.id[cp[i]] = pre.id[ch[i]]
              /\ Len(post.plist[cp[i]]) = Len(pre.plist[ch[i]])
              /\ \A j \in DOMAIN pre.plist[ch[i]] :
                    /\ Content(post, post.plist[cp[i]][j]) = Content(pre, pre.plist[ch[i]][j])
                    /\ post.id[post.plist[cp[i]][j]] = pre.id[pre.plist[ch[i]][j]]
              /\ post.kids[cp[i]] = (IF i < Len(ch) THEN <<cp[i + 1]>> ELSE <<>>)
\* an edit of one tree leaves every object outside that tree exactly as it was
\* o = [pre, post, touched]  (touched: handles whose trees the edit was applied to)
Frame(o) == LET T == UNION {Sub(o.pre, Top(o.pre, t)) : t \in {u \in SeqRange(o.touched) : u \in DOMAIN o.pre.kind}} IN
            Unchanged(o.pre, o.post, DOMAIN o.pre.kind \ T)
====
