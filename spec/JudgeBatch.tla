---- MODULE JudgeBatch ----
(* Judge for C17 observations. *)
EXTENDS OdmlBatchOps, IOUtils
Obs == ndJsonDeserialize(IOEnv.OBS_FILE)
VARIABLE l
KindsOf(o) == {<<o.files[i].kind, o.files[i].ext>> : i \in DOMAIN o.files}
Say(o, clause, sig) == PrintT(ToJson(<<"VIOL", "C17", clause, o.k, sig>>))
C(o, ok, clause, sig) == IF ok THEN TRUE ELSE Say(o, clause, sig)
Base(o) == <<o.tool, IF o.recursive THEN "recursive" ELSE "flat", o.outdir>>
BadUnreported(o) == {<<o.files[i].kind, o.files[i].ext>> : i \in {j \in DOMAIN o.files : Handled(o.files[j], o.recursive) /\ o.files[j].kind \in Bad /\ ~o.files[j].reported}}
Missing(o) == {<<o.files[i].kind, o.files[i].ext>> : i \in {j \in DOMAIN o.files : Handled(o.files[j], o.recursive) /\ Convertible(o.tool, o.files[j].kind) /\ ~(o.files[j].output /\ o.files[j].loads)}}
Check(i) == LET o == Obs[i] IN
   /\ C(o, InputsUntouched(o), "InputsByteIdentical", <<Base(o)>>)
   /\ C(o, OutputsContained(o), "OutputsOnlyInTheNewLocation", <<Base(o)>>)
   /\ C(o, NeverStops(o), "BadFileDoesNotStopTheRun", <<Base(o), o.out, KindsOf(o)>>)
   /\ C(o, EveryConvertibleHasOutput(o), "EveryConvertibleFileHasItsOutput", <<Base(o), Missing(o), KindsOf(o) \ Missing(o)>>)
   /\ C(o, IsCli(o) => EveryBadFileReported(o), "EveryBadFileIsReported", <<Base(o), BadUnreported(o)>>)
   /\ C(o, NothingForTheRest(o), "NoOutputForUnconvertibleFiles", <<Base(o)>>)
JInit == l = 1
JNext == l <= Len(Obs) /\ (Check(l) = TRUE) /\ l' = l + 1
JSpec == JInit /\ [][JNext]_l
Done == IF TLCGet("stats").diameter - 1 = Len(Obs) THEN TRUE
        ELSE PrintT(ToJson(<<"INCOMPLETE", TLCGet("stats").diameter - 1, Len(Obs)>>)) /\ FALSE
====
