---- MODULE JudgeOutline ----
(* Judge for X03 (pprint outlines). *)
EXTENDS OdmlOutline, Json, IOUtils
Obs == ndJsonDeserialize(IOEnv.OBS_FILE)
VARIABLE l
Say(o, clause, sig) == PrintT(ToJson(<<"VIOL", "X03", clause, o.k, sig>>))
C(o, ok, clause, s) == IF ok THEN TRUE ELSE Say(o, clause, s)
Check(i) == LET o == Obs[i] IN
   \A n \in DOMAIN o.prints : LET e == o.prints[n] IN
        C(o, OutlineOK([st |-> o.st, x |-> e.x, indent |-> e.indent, maxd |-> e.maxd, lines |-> e.lines, out |-> e.out]),
          "OutlineOK", <<IF e.maxd < 0 THEN "unlimited" ELSE IF e.maxd = 0 THEN "depth0" ELSE "depthN", e.out>>)
JInit == l = 1
JNext == l <= Len(Obs) /\ (Check(l) = TRUE) /\ l' = l + 1
JSpec == JInit /\ [][JNext]_l
Done == IF TLCGet("stats").diameter - 1 = Len(Obs) THEN TRUE
        ELSE PrintT(ToJson(<<"INCOMPLETE", TLCGet("stats").diameter - 1, Len(Obs)>>)) /\ FALSE
====
