---- MODULE OdmlQuery ----
(***************************************************************************)
(* C20 - searches over exported RDF return exactly the matching objects.   *)
(* Pure operators: which rows a combination of attribute=value pairs must  *)
(* return on a world (Match), which combinations a match-mode / fuzzy      *)
(* search has to report (Combos), and the CONTRACT FindOK on the parsed    *)
(* output of FuzzyFinder.find.                                             *)
(* A pair is [kind |-> "Doc"|"Sec"|"Prop", attr, val]; a row is            *)
(* [d, s, p] with "-" for a variable the query does not mention.           *)
(* The world w is a full world (OdmlClone) with w.qattrs[x]: attribute ->  *)
(* text, for the attributes the RDF model carries as plain text.           *)
(***************************************************************************)
EXTENDS OdmlClone
KindOfPair(k) == IF k = "Doc" THEN "doc" ELSE IF k = "Sec" THEN "sec" ELSE "prop"
Carries(w, x, P) == \A q \in P : q.attr \in DOMAIN w.qattrs[x] /\ w.qattrs[x][q.attr] = q.val
Of(P, k) == {q \in P : q.kind = k}
Contains(w, c, x) == x \in SeqRange(w.kids[c]) \cup SeqRange(w.plist[c])
\* the rows the generated query has to return: kinds are related by direct containment
Match(w, P) ==
   LET hasD == Of(P, "Doc") # {} IN LET hasS == Of(P, "Sec") # {} IN LET hasP == Of(P, "Prop") # {} IN
   LET Ds == IF hasD THEN {x \in Docs(w) : Carries(w, x, Of(P, "Doc"))}
             ELSE IF hasS THEN Docs(w) \cup Secs(w) ELSE {"-"} IN
   LET Ss == IF hasS THEN {x \in Secs(w) : Carries(w, x, Of(P, "Sec"))}
             ELSE IF hasP THEN Secs(w) ELSE {"-"} IN
   LET Ps == IF hasP THEN {x \in Props(w) : Carries(w, x, Of(P, "Prop"))} ELSE {"-"} IN
   {r \in [d : Ds, s : Ss, p : Ps] : /\ (hasS => Contains(w, r.d, r.s))
                                     /\ (hasP => Contains(w, r.s, r.p))}
\* combinations a search has to try: non-empty, at most one value per attribute of a kind
Consistent(P) == \A q1, q2 \in P : (q1.kind = q2.kind /\ q1.attr = q2.attr) => q1 = q2
Combos(pairs) == {P \in SUBSET pairs : P # {} /\ Consistent(P)}
FuzzyPairs(attrs, terms) == {[kind |-> a.kind, attr |-> a.attr, val |-> t] : a \in attrs, t \in terms}

\* o = [w, mode, pairs (given, or attrs x terms for fuzzy), blocks (seq of [pairs, rows]), out]
BlocksExact(o) == \A i \in DOMAIN o.blocks : o.blocks[i].rows = Match(o.w, o.blocks[i].pairs)
Expected(o) == {P \in Combos(o.pairs) : Match(o.w, P) # {}}
BlocksComplete(o) == {o.blocks[i].pairs : i \in DOMAIN o.blocks} = Expected(o)
MostSpecificFirst(o) == \A i, j \in DOMAIN o.blocks : i < j => Cardinality(o.blocks[i].pairs) >= Cardinality(o.blocks[j].pairs)
NoDuplicates(o) == \A i, j \in DOMAIN o.blocks : i # j => o.blocks[i].pairs # o.blocks[j].pairs
Missing(o) == Expected(o) \ {o.blocks[i].pairs : i \in DOMAIN o.blocks}
Extra(o) == {o.blocks[i].pairs : i \in DOMAIN o.blocks} \ Expected(o)
\* classification of what is missing: combinations that use one attribute name for two kinds of object
CrossKindSameAttr(P) == \E q1, q2 \in P : q1.kind # q2.kind /\ q1.attr = q2.attr
====
