---- MODULE JudgeRdf ----
(* Judge for C10 observations. *)
EXTENDS OdmlRdf, Json, IOUtils
Obs == ndJsonDeserialize(IOEnv.OBS_FILE)
VARIABLE l
Say(o, clause, sig) == PrintT(ToJson(<<"VIOL", "C10", clause, o.k, sig>>))
C(o, ok, clause, sig) == IF ok THEN TRUE ELSE Say(o, clause, sig)
Base(o) == <<o.sub, IF o.ndocs = 1 THEN "one-doc" ELSE "several-docs">>
SetOfSeq(f) == [x \in DOMAIN f |-> SeqRange(f[x])]
G(o) == [o.g EXCEPT !.hubs = SeqRange(o.g.hubs), !.repo = SetOfSeq(o.g.repo), !.hubterms = SeqRange(o.g.hubterms), !.types = SetOfSeq(o.g.types), !.kids = SetOfSeq(o.g.kids),
                   !.plist = SetOfSeq(o.g.plist), !.subclassof = SetOfSeq(o.g.subclassof)]
Check(i) == LET o == Obs[i] IN
   IF o.t = "graph" THEN
      /\ C(o, o.out = "ok", "ExportSucceeds", <<Base(o), o.exc>>)
      /\ (o.out # "ok" \/ LET g == G(o) IN
            /\ C(o, HubOK(o.w, o.docs, g), "SingleHubLinksEveryDocument", <<Base(o)>>)
            /\ C(o, OneNodeEach(o.w, o.docs, g), "OneNodePerObject", <<Base(o)>>)
            /\ C(o, TypesOK(o.w, o.docs, g, o.sub # "off"), "TypedAsItsClass", <<Base(o)>>)
            /\ C(o, AttrsOK(o.w, o.docs, g), "ExactlyTheSetAttributes", <<Base(o), AttrMismatch(o.w, o.docs, g)>>)
            /\ C(o, RepoOK(o.w, o.docs, g), "ExactlyTheSetAttributes", <<Base(o), {"repository"}>>)
            /\ C(o, ChildrenOK(o.w, o.docs, g), "Containment", <<Base(o)>>)
            /\ C(o, ValuesOK(o.w, o.docs, g), "ValuesAreAnOrderedSequence", <<Base(o)>>))
   ELSE
      C(o, o.out = "ok" /\ ImportOK(o.w, o.docs, o.r, o.imp), "ImportsBackUnchanged",
        <<o.fmt, o.entry, o.out, o.exc, IF o.out = "ok" THEN ImportMismatch(o.w, o.docs, o.r, o.imp) ELSE {},
          \* classification only: the import agrees once floats are compared to 5 significant digits
          IF o.digits_only THEN "float-digits-only" ELSE "other">>)
JInit == l = 1
JNext == l <= Len(Obs) /\ (Check(l) = TRUE) /\ l' = l + 1
JSpec == JInit /\ [][JNext]_l
Done == IF TLCGet("stats").diameter - 1 = Len(Obs) THEN TRUE
        ELSE PrintT(ToJson(<<"INCOMPLETE", TLCGet("stats").diameter - 1, Len(Obs)>>)) /\ FALSE
====
