---- MODULE OdmlValuesOps ----
(***************************************************************************)
(* C05 - Property values always conform to the Property's dtype, in normal *)
(* form.  CONTRACT predicates over an observed Property `p`:               *)
(*   p.dtype   dtype name or "none"                                        *)
(*   p.vals    sequence of facts about the stored values, each             *)
(*             [pt  |-> exact Python type name,                            *)
(*              n   |-> length if a list, else 0,                          *)
(*              allstr |-> every list element is a str,                    *)
(*              rt  |-> converting the value to text and back (the         *)
(*                      library's own dtypes.set / dtypes.get) gives an    *)
(*                      equal value of the same type,                      *)
(*              us  |-> no sub-second part,                                *)
(*              r   |-> repr (only compared for equality)]                 *)
(*   p.unit    repr of the unit or "none" (only compared for equality)     *)
(*   p.selfassign  "same" | "changed" | "raised": effect of p.values =     *)
(*             p.values                                                    *)
(* and the acceptance table of the REFERENCE model.                        *)
(***************************************************************************)
EXTENDS Naturals, Sequences, FiniteSets, TLC

StrTypes == {"string", "text", "url", "person"}
ScalarTypes == StrTypes \cup {"int", "float", "boolean", "date", "time", "datetime"}
TupleTypes == {"2-tuple", "3-tuple"}
Dtypes == ScalarTypes \cup TupleTypes
TupleLen(d) == IF d = "2-tuple" THEN 2 ELSE IF d = "3-tuple" THEN 3 ELSE 0
TypeOf(d) == IF d \in StrTypes THEN "str"
             ELSE IF d = "boolean" THEN "bool"
             ELSE IF d \in TupleTypes THEN "list"
             ELSE d                        \* int, float, date, time, datetime

ValueOK(d, v) == /\ v.pt = TypeOf(d)
                 /\ (d \in TupleTypes => v.n = TupleLen(d) /\ v.allstr)
                 /\ v.rt
                 /\ v.us
Conforms(p) == /\ (p.dtype \in Dtypes \/ (p.dtype = "none" /\ p.vals = <<>>))
               /\ \A i \in DOMAIN p.vals : ValueOK(p.dtype, p.vals[i])
Same(p, q) == p.dtype = q.dtype /\ p.vals = q.vals /\ p.unit = q.unit       \* unit: a refused extend(<Property>) may not have adopted the unit
ValueOps == {"ctor", "set_values", "append", "extend", "insert", "setitem", "merge"}
\* o = [op, out, exc, pre, post]; pre = [dtype |-> "absent", ...] for a constructor
Atomic(o) == o.out = "raised" => (IF o.op.name = "ctor" THEN o.post.dtype = "absent" ELSE Same(o.pre, o.post))
StepConforms(o) == o.post.dtype # "absent" => Conforms(o.post)
\* "changing the dtype either converts all values or changes nothing"; assigning no dtype
\* (None) lets the library infer one again, which also has to convert all values
DtypeStep(o) == o.op.name = "set_dtype" =>
                  \/ Same(o.pre, o.post)
                  \/ /\ (o.post.dtype = o.op.d \/ o.op.d = "none")
                     /\ Len(o.post.vals) = Len(o.pre.vals) /\ Conforms(o.post)
SelfAssign(o) == o.post.dtype # "absent" => o.post.selfassign = "same"
\* "input that cannot be converted is refused with ValueError" (an index out of range may be an IndexError)
RefusalClass(o) == (o.out = "raised" /\ o.op.name \in ValueOps) =>
                      o.exc = "ValueError" \/ (o.op.name \in {"setitem", "insert"} /\ o.exc = "IndexError")

(***************************************************************************)
(* REFERENCE: which input classes a dtype family accepts.  "yes"/"no" are  *)
(* predictions used for DIVERGENCE reports only; everything else is        *)
(* unspecified (C05 does not say which inputs should convert).             *)
(***************************************************************************)
Fam(d) == IF d \in StrTypes THEN "str" ELSE IF d \in TupleTypes THEN "tuple" ELSE d
Scalars == {"int", "int0", "negint", "float_i", "float_f", "true", "false", "str", "text", "s_int", "s_float",
            "s_bool", "s_date", "s_time", "s_datetime", "date", "time", "time_us", "datetime", "datetime_us",
            "tuple2", "tuple3", "bracketed", "dict",
            "datetime_tz", "time_tz", "inf", "bigint", "s_int_ws", "s_float_exp", "tuple2e", "tuple3e",
            "s_date_early", "date_early", "s_datetime_early", "datetime_early"}      \* years below 1000 (four-digit text form)
Empties == {"none", "empty", "elist", "edict"}
Lists == {"list_int", "list_str", "list_mixed", "list_s_int", "list_tuple2", "list_tuple2p", "list_tuple23"}     \* ..2p: a component with brackets in it; ..23: a 2- and a 3-tuple
\* another Property handed to extend ("one can also pass another Property ... units must match"): two int values,
\* two string values, two int values with a unit the destination does not have
PropInputs == {"prop_int", "prop_str", "prop_unit", "prop_unit_str"}    \* ..unit_str: a unit the destination lacks and a text value an int cannot take
Classes == Scalars \cup Empties \cup Lists
AccYes(f) == CASE f = "str"      -> {"str", "text", "list_str", "prop_str"}
               [] f = "int"      -> {"int", "int0", "negint", "s_int", "list_int", "list_s_int", "bigint", "s_int_ws", "prop_int"}
               [] f = "float"    -> {"float_i", "float_f", "s_float", "inf", "s_float_exp"}
               [] f = "boolean"  -> {"true", "false", "s_bool"}
               [] f = "date"     -> {"date", "s_date", "date_early", "s_date_early"}
               [] f = "time"     -> {"time", "s_time", "time_tz"}
               [] f = "datetime" -> {"datetime", "s_datetime", "datetime_tz", "datetime_early", "s_datetime_early"}
               [] f = "tuple"    -> {}
               [] OTHER -> {}
AccNo(f) == IF f \in {"str", "none"} THEN {} ELSE {"str", "text", "list_str", "list_mixed", "prop_str"} \cup (IF f = "tuple" THEN {"list_tuple23"} ELSE {})

ListLen(c) == IF c \in Lists \cup PropInputs \cup {"bracketed"} THEN 2 ELSE 1
Infer(c) == CASE c \in {"int", "int0", "negint", "list_int", "list_mixed", "bigint", "prop_int"} -> "int"
              [] c \in {"float_i", "float_f", "inf"} -> "float"
              [] c \in {"true", "false"} -> "boolean"
              [] c = "text" -> "text"
              [] c \in {"date", "date_early"} -> "date"
              [] c \in {"time", "time_us", "time_tz"} -> "time"
              [] c \in {"datetime", "datetime_us", "datetime_tz", "datetime_early"} -> "datetime"
              [] OTHER -> "string"
\* "input that cannot be converted is refused": an accepted list of k values adds k values - none is dropped silently
\* (judged for lists given to a Property that already holds values; what an empty Property does with a list is the
\* values setter's inference and is compared with the reference only)
NothingDropped(o) == (o.op.name \in {"append", "extend", "insert"} /\ o.out = "ok" /\ o.op.in \in Lists \cup PropInputs /\ Len(o.pre.vals) > 0)
                        => Len(o.post.vals) = Len(o.pre.vals) + ListLen(o.op.in)
Outcomes(d, c) == IF c \in AccYes(Fam(d)) THEN {"ok"} ELSE IF c \in AccNo(Fam(d)) THEN {"raised"} ELSE {"ok", "raised"}
Abs(d, n) == [d |-> d, n |-> n]
R(out, s) == [out |-> out, s |-> s]
SetValuesPost(s, c) ==
   IF c \in Empties \ {"edict"} THEN {R("ok", Abs(s.d, 0))}      \* {} is not "empty" for the values setter: it is stored as text
   ELSE LET d2 == IF s.d = "none" THEN Infer(c) ELSE s.d IN
        {R("ok", Abs(d2, ListLen(c))) : x \in Outcomes(d2, c) \cap {"ok"}} \cup
        {R("raised", s) : x \in Outcomes(d2, c) \cap {"raised"}}
Grow(s, c, k) ==      \* append / extend / insert of k values to a non-empty Property
   {R("raised", s)} \cup (IF c \in AccNo(Fam(s.d)) THEN {} ELSE {R("ok", Abs(s.d, s.n + k))})
Absent == Abs("absent", 0)
\* Post(s, op): the set of [out, s] the reference allows
Post(s, op) ==
  CASE op.name = "set_values" -> SetValuesPost(s, op.in)
    [] op.name = "append" ->
         IF op.in \in Empties THEN {R("ok", s)}
         ELSE IF s.n = 0 THEN SetValuesPost(s, op.in)
         ELSE IF ListLen(op.in) > 1 THEN {R("raised", s)}
         ELSE Grow(s, op.in, 1)
    [] op.name = "insert" ->
         IF op.in \in Empties THEN {R("ok", s)}
         ELSE IF s.n = 0 THEN SetValuesPost(s, op.in)
         ELSE Grow(s, op.in, 1)
    [] op.name = "extend" ->
         IF op.in \in {"prop_unit", "prop_unit_str"} THEN {R("raised", s)}            \* units differ: refused
         ELSE IF s.n = 0 THEN SetValuesPost(s, op.in)
         ELSE IF op.in \in Empties THEN {R("ok", s), R("ok", Abs(s.d, s.n + 1)), R("raised", s)}
         ELSE Grow(s, op.in, ListLen(op.in))
    [] op.name = "setitem" ->
         IF op.i >= s.n THEN {R("raised", s)}
         ELSE {R("raised", s)} \cup (IF op.in \in AccNo(Fam(s.d)) THEN {} ELSE {R("ok", s)})
    [] op.name = "remove" -> {R("ok", s)} \cup (IF s.n > 0 THEN {R("ok", Abs(s.d, s.n - 1))} ELSE {})
    [] op.name = "set_dtype" ->
         IF op.d = "foo" THEN {R("raised", s)}
         ELSE IF op.d = "none" THEN {R("ok", Abs(d, s.n)) : d \in (IF s.n = 0 THEN {"none"} ELSE Dtypes)} \cup {R("raised", s)}
         ELSE IF s.n = 0 THEN {R("ok", Abs(op.d, 0))}
         ELSE {R("ok", Abs(op.d, s.n)), R("raised", s)}
    [] op.name = "merge" ->
         IF s.d = "none" THEN {R("raised", s), R("ok", s)} \cup {R("ok", Abs(d, m)) : d \in Dtypes, m \in 1 .. op.n}
         ELSE {R("raised", s)} \cup {R("ok", Abs(s.d, m)) : m \in s.n .. (s.n + op.n)}
    [] op.name = "ctor" ->
         LET d0 == IF op.d = "foo" THEN "none" ELSE op.d IN
         {R("ok", r.s) : r \in {q \in SetValuesPost(Abs(d0, 0), op.in) : q.out = "ok"}} \cup
         (IF \E q \in SetValuesPost(Abs(d0, 0), op.in) : q.out = "raised" THEN {R("raised", Absent)} ELSE {})
    [] op.name = "clone" -> {R("ok", s)}
    [] OTHER -> {}
====
