#!/bin/sh
# Offline setup: parse every TLA+ module (SANY), check the environment.
cd "$(dirname "$0")/spec" || exit 1
rc=0
for f in *.tla; do
  out=$(tla-sany "$f" 2>&1)
  if echo "$out" | grep -q -E "Parsing or semantic analysis failed|\*\*\* Errors|Abort|Parse Error|Fatal errors|Could not parse"; then echo "SANY FAILED: $f"; echo "$out" | tail -20; rc=1; fi
done
/venv/bin/python -c "import sys; sys.path.insert(0,'/repo'); import odml, lxml, yaml, rdflib; assert odml.__file__.startswith('/repo/'), odml.__file__" || rc=1
mkdir -p ../build ../evidence ../replays
# the binding demonstrates itself: corrupted observations must be rejected by the judges
if [ $rc -eq 0 ]; then (cd .. && ./check selftest) || rc=1; fi
[ $rc -eq 0 ] && echo "setup ok"
exit $rc
